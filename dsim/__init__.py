"""Deterministic simulation with fault injection for sheXer (see /verif/DESIGN.md)."""
