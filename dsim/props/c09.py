"""C09 — shapes do not depend on statement order or blank-node labels.

Simulated system: the *source* decides the delivery order, independently for
the instance pass and the feature pass (SimStore), and the blank-node labels;
a second family permutes / relabels the document text itself (same order in
both passes, through the real NT / TSV / streaming-Turtle readers).
"""
import copy
import itertools
import random

from .. import gen
from ..engine import generic_shrink
from ..compare import compare_texts, tied_groups, union_ties
from ..world import target_kwargs
from .common import (Sim, SimStore, run_once, violation, finish, shape_stats, set_knob, NEVER_FLUSH, components,
                     _contradiction_check_applies)

ID = "C09"
LEVEL = "exploration"
HAS_CLOCK = False
COUNTS = {"quick": 8000, "thorough": 600000}
WALL = {"quick": 600, "thorough": 6 * 3600}
SHRINK_WALL = {"quick": 120, "thorough": 900}
SELFTEST_N = {"quick": 32, "thorough": 256}
CHUNK = 8
RULE = ("Scenario = seeded (duplicate-free general or schema-consistent graph incl. blank nodes, target, all inference switches, "
        "inverse paths) x delivery schedule: family 'store' = SimStore delivering pass 1 and pass 2 in independently drawn orders "
        "with an injective blank-node relabelling; family 'document' = permuted and relabelled N-Triples / TSV / flat-Turtle text. "
        "Thorough adds all 720 permutations of sampled <=6-statement graphs. Non-trivial = at least one shape with a constraint AND "
        "the delivered order of at least one pass differs from the reference order; distinct = distinct scenario documents.")
COMPONENTS = components(["the rdflib_graph= argument is a SimStore (rdflib.Graph subclass whose iteration order the scheduler owns)"])
ASSUMPTIONS = [
    "reference = sheXer itself on the unpermuted, unrelabelled delivery through the same reader (a defect that is order-independent is invisible)",
    "ties are read from the class profile of both runs (internal attribute) only to decide where L2 may be relaxed; on schema-consistent graphs no relaxation is applied",
    "instances_cap and examples_mode are off: both are order-defined by specification",
]


def generate(rng, tier, index):
    schema = rng.random() < 0.35
    bn = rng.random() < 0.35
    n_nodes = rng.choice([2, 3, 4, 6, 8]) if tier == "quick" else rng.choice([2, 3, 4, 6, 8, 12, 18])
    if schema:
        triples = gen.gen_schema_graph(rng, n_nodes=n_nodes, n_classes=rng.randint(1, 3), n_props=rng.randint(1, 4), bnodes=bn)
    else:
        triples = gen.gen_graph(rng, n_nodes=n_nodes, n_classes=rng.randint(1, 3), n_props=rng.randint(1, 5), bnodes=bn,
                                density=rng.choice([0.4, 0.6, 0.9]), same_local_classes=0.08,
                                kinds=("node", "str", "int", "lang", "date", "iri", "iri2", "cdt", "cdt2"))
    qualifiers = (not schema) and rng.random() < 0.08
    if qualifiers:
        # statement-node style data: properties of one vocabulary lead to nodes that get a shape of their own
        triples = gen.gen_graph(rng, n_nodes=n_nodes, n_classes=rng.randint(1, 2), n_props=rng.randint(2, 4), bnodes=False,
                                density=rng.choice([0.6, 0.9]), kinds=("node", "node", "str"), prop_namespaces=(gen.EX, gen.OTHER))
    tp = gen.CUSTOM_TYPE if rng.random() < 0.12 else gen.RDF_TYPE
    triples = gen.retype(gen.ensure_class(triples), tp)
    family = "store" if rng.random() < 0.5 else "document"
    target = gen.gen_target(rng, triples, allow_shape_map=False, type_prop=tp)
    if family == "document" and not bn and rng.random() < 0.3:
        # plain node selectors (no query is evaluated); some selected nodes only ever occur as objects, so their
        # shape ends up empty and is removed together with the constraints that point to it
        subs = sorted({t[0][1] for t in triples if t[0][0] == "i"})
        objs = sorted({t[2][1] for t in triples if t[2][0] == "i" and t[2][1].startswith("http") and t[1][1] != tp} - set(subs))
        items = ["<%s>@<http://sh.org/A>" % x for x in rng.sample(subs, min(len(subs), rng.randint(1, 3)))]
        items += ["<%s>@<http://sh.org/B>" % x for x in rng.sample(objs, min(len(objs), rng.randint(0, 3)))]
        target = {"shape_map_raw": "\n".join(items)}
    options = gen.gen_options(rng, allow_inverse=True)
    if tp != gen.RDF_TYPE:
        options["instantiation_property"] = tp
    if rng.random() < 0.15:
        options["detect_minimal_iri"] = True
    if qualifiers and "all_classes_mode" in target:
        options["shape_qualifiers_mode"] = True
        options["namespaces_for_qualifier_props"] = [gen.OTHER]
    labels = sorted({t[1] for tr in triples for t in (tr[0], tr[2]) if t[0] == "b"})
    relabel = {}
    if labels and rng.random() < 0.8:
        # legal label characters beyond [A-Za-z0-9_]: '-' and an inner '.' (genid / skolem style labels)
        style = rng.choice(["_:z%d", "_:z%d", "_:genid-%d", "_:n.%dx", "_:b_%d-a.b", "underscores", "swap", "swap"])
        if style == "_:b_%d-a.b" and rng.random() < 0.5:
            style = "mixed_long"
        if style == "mixed_long":
            # long labels next to short ones of the form _:b<n>
            new = [("_:averyveryveryverylonglabelforablanknode%d" % i) if i % 2 == 0 else ("_:b%d" % (i // 2)) for i in range(len(labels))]
        elif style == "swap":
            new = list(labels)      # the same labels handed to other nodes (the document keeps its size)
        elif style == "underscores":
            new = ["_:" + "_" * i + "n" for i in range(len(labels))]      # _:n, _:_n, _:__n ... are distinct labels
        else:
            new = [style % i for i in range(len(labels))]
        rng.shuffle(new)
        relabel = dict(zip(labels, new))
    n = len(triples)
    p1 = list(range(n))
    p2 = list(range(n))
    rng.shuffle(p1)
    if family == "store" and rng.random() < 0.8:
        rng.shuffle(p2)           # independent draw for pass 2
    else:
        p2 = list(p1)
    fmt = "nt"
    if family == "document":
        fmt = rng.choice(["nt", "nt", "nt", "tsv_spo", "turtle_iter"])
        if fmt == "turtle_iter" and any(t[2][0] == "l" and t[2][3] for t in triples):
            fmt = "nt"     # the streaming reader rejects language tags (C04/C07, not claimed)
    ttl_prefixed = None
    if fmt == "turtle_iter" and rng.random() < 0.6:
        ttl_prefixed = "dt" if rng.random() < 0.3 else "plain"
    return {"family": family, "format": fmt, "schema": schema, "ttl_prefixed": ttl_prefixed, "graph": gen.L(triples), "target": target, "options": options,
            "ns": gen.gen_namespaces(rng), "relabel": relabel, "orders": [[p1, p2]],
            "via_file": family == "document" and rng.random() < 0.35}


def _relabel(triples, m):
    def f(t):
        if t[0] == "b" and t[1] in m:
            return ("b", m[t[1]])
        return t
    return [(f(s), p, f(o)) for (s, p, o) in triples]


def _doc(triples, fmt, scen=None):
    if fmt == "tsv_spo":
        return gen.to_tsv(triples)
    if fmt == "turtle_iter" and scen is not None and scen.get("ttl_prefixed"):
        # flat (one statement per line) Turtle with @prefix lines; custom datatypes may be written with a prefix the
        # streaming reader cannot resolve: then both orders must fail alike
        return gen.to_turtle(triples, group=False, dialect="iter", prefixed_custom_datatypes=scen.get("ttl_prefixed") == "dt",
                             stable_labels=True)
    return gen.to_nt(triples)


def _kwargs(scen, **extra):
    kw = {}
    kw.update(target_kwargs(scen["target"]))
    kw.update(copy.deepcopy(scen["options"]))
    kw["namespaces_dict"] = copy.deepcopy(scen["ns"])
    kw.update(extra)
    return kw


def _judge(scen, ref, out, oracle):
    """L0 always, L1 always, L2 outside ties (everywhere on schema-consistent graphs)."""
    vs = []
    if ref.kind == "exc" or out.kind == "exc":
        if (ref.kind, ref.exc) != (out.kind, out.exc):
            vs.append(violation(oracle, "exception_parity", [ref.brief(), out.brief(), (out.msg or ref.msg or "")[:160]]))
        return vs
    if ref.text == out.text:
        return vs
    cc = _contradiction_check_applies(scen["options"])
    strict = compare_texts(ref.text, out.text, ties=frozenset(), demand="L2", contradiction_check=cc)
    if strict is None:
        return vs
    ties = union_ties(tied_groups(ref.groups), tied_groups(out.groups))
    if scen["schema"] and not scen["options"].get("inverse_paths"):
        # schema-consistent graph, direct features only: no ties by construction, full equality required
        # (with inverse paths, incoming links from instances of different classes do tie)
        ties = frozenset()
    relaxed = compare_texts(ref.text, out.text, ties=ties, demand="L2", contradiction_check=cc)
    if relaxed is not None:
        vs.append(violation(oracle, relaxed.klass(), relaxed.detail))
    elif strict.level in ("L1", "L0"):
        # evidence-set equality is required everywhere by the statement; the difference is confined to
        # frequency-tied groups and contradicts no fact: the predicted behaviour of the known finding
        vs.append(violation(oracle, strict.klass() + ":inside_tied_groups", strict.detail, "tie_demotion_changes_visible_facts"))
    return vs


def _scale_graph(spec):
    """n subjects, each a small instance; the statements of the first instances are scattered over the whole document by
    `moves` (from index, to index): a bounded window / eviction in the profiler must not change what is counted."""
    n = spec["n"]
    triples = []
    if spec.get("kind") == "neartie":
        # two alternative shape references whose counts differ by one in n: any rounding of frequencies turns the
        # difference into a tie that arrival order would then decide
        for i in range(n):
            a = gen.iri(gen.EX + "a%d" % i)
            o = gen.iri(gen.EX + "o%d" % i)
            triples.append((a, gen.iri(gen.RDF_TYPE), gen.iri(gen.EX + "A")))
            triples.append((a, gen.iri(gen.EX + "r"), o))
            triples.append((o, gen.iri(gen.RDF_TYPE), gen.iri(gen.EX + "B")))
            if i != n // 2:
                triples.append((o, gen.iri(gen.RDF_TYPE), gen.iri(gen.EX + "C")))
        return triples
    for i in range(n):
        s = gen.iri(gen.EX + "n%d" % i)
        triples.append((s, gen.iri(gen.RDF_TYPE), gen.iri(gen.EX + "C%d" % (i % 3))))
        triples.append((s, gen.iri(gen.EX + "p0"), gen.lit("v%d" % (i % 7), gen.XSD + "string")))
        if i < 4:
            triples.append((s, gen.iri(gen.EX + "q"), gen.iri(gen.EX + "x%d" % i)))
            triples.append((s, gen.iri(gen.EX + "q"), gen.iri(gen.EX + "y%d" % i)))
    return triples


def _apply_moves(n, moves):
    order = list(range(n))
    for (a, b) in moves:
        x = order.pop(a)
        order.insert(b if b >= 0 else len(order) + 1 + b, x)
    return order


def execute(scen, scratch):
    sim = Sim(scratch)
    set_knob(NEVER_FLUSH)
    violations = []
    verdicts = []
    texts = []
    runs = 0
    if scen.get("scale"):
        scen = dict(scen)
        g = _scale_graph(scen["scale"])
        scen["graph"] = gen.L(g)
        if scen["scale"].get("kind") == "neartie":
            o = list(range(len(g) - 1, -1, -1))
        else:
            o = _apply_moves(len(g), scen["scale"]["moves"])
        scen["orders"] = [[o, o]]
    triples = [gen.T(t) for t in scen["graph"]]
    n = len(triples)
    moved = _relabel(triples, scen["relabel"])
    differs = False
    with sim:
        if scen["family"] == "store":
            ident = list(range(n))
            # canonical base order of SimStore is sorted by n3(); 'explicit' orders index into that
            ref_store = gen.to_rdflib_graph(triples, cls=SimStore).configure(sim, 0, explicit_orders=[ident, ident])
            ref = run_once(_kwargs(scen, rdflib_graph=ref_store))
            runs += 1
            for (p1, p2) in scen["orders"]:
                st = gen.to_rdflib_graph(moved, cls=SimStore).configure(sim, 0, explicit_orders=[p1, p2])
                out = run_once(_kwargs(scen, rdflib_graph=st))
                runs += 1
                if p1 != ident or p2 != ident:
                    differs = True
                if p1 != p2:
                    sim.probes["per_pass_order_differs"] += 1
                verdicts.append((out.brief(),))
                violations += _judge(scen, ref, out, "store_order")
                if out.kind == "ok":
                    texts.append(out.text)
        else:
            fmt = scen["format"]

            def src(doc):
                # either the text itself, or one file path that is rewritten before every run (a regenerated export)
                if scen.get("via_file"):
                    return {"graph_file_input": sim.write_file("export." + fmt.replace("_", "."), doc)}
                return {"raw_graph": doc}
            ref = run_once(_kwargs(scen, input_format=fmt, **src(_doc(triples, fmt, scen))))
            runs += 1
            for (p1, _p2) in scen["orders"]:
                perm = [moved[i] for i in p1]
                out = run_once(_kwargs(scen, input_format=fmt, **src(_doc(perm, fmt, scen))))
                runs += 1
                if p1 != list(range(n)):
                    differs = True
                verdicts.append((out.brief(),))
                violations += _judge(scen, ref, out, "document_order")
                if out.kind == "ok":
                    texts.append(out.text)
        if scen["relabel"]:
            sim.probes["bnodes_relabelled"] += 1
        if ref.kind == "ok" and ref.groups is not None and tied_groups(ref.groups):
            sim.probes["tie_present"] += 1
        if scen["schema"]:
            sim.probes["schema_consistent"] += 1
    n_cons = shape_stats(ref.text)[1] if ref.kind == "ok" else 0
    # dedupe identical violations from many permutations
    seen = set()
    uniq = []
    for v in violations:
        k = (v["oracle"], v["klass"], v.get("sig"))
        if k not in seen:
            seen.add(k)
            uniq.append(v)
    return finish(sim, uniq, verdicts, n_cons > 0 and differs, runs, texts[:1])


def extra_scenarios(tier, base):
    """all permutations of sampled <= 6-statement graphs (document family), and all
    (pass-1, pass-2) order pairs of <= 4-statement graphs (store family)"""
    out = []
    # scale: tens of thousands of subjects between two statements of one instance
    for k, n in enumerate([25000] if tier == "quick" else [25000, 70000, 150000]):
        out.append(("scale-%d" % n, {
            "family": "document", "format": "nt", "schema": False, "ttl_prefixed": None,
            "scale": {"n": n, "moves": [[3, -1], [7, -1], [2, n // 2], [11, -1], [4 * n - 1 if False else 2 * n, 0]]},
            "graph": [], "target": {"all_classes_mode": True}, "options": {"instances_report_mode": "mixed"},
            "ns": dict(gen.BASE_NS), "relabel": {}, "orders": []}))
    for (n, dec) in ([(3000, 1)] if tier == "quick" else [(3000, 1), (30000, 2), (3000, 4), (700, 0)]):
        out.append(("neartie-%d-d%d" % (n, dec), {
            "family": "document", "format": "nt", "schema": False, "ttl_prefixed": None,
            "scale": {"kind": "neartie", "n": n}, "graph": [], "target": {"all_classes_mode": True},
            "options": {"instances_report_mode": "mixed", "decimals": dec}, "ns": dict(gen.BASE_NS), "relabel": {}, "orders": []}))
    n_graphs = 2 if tier == "quick" else 60
    for gi in range(n_graphs):
        rng = random.Random("C09-exh:%s:%s" % (base, gi))
        scen = generate(rng, tier, gi)
        k = rng.choice([4, 5]) if tier == "quick" else rng.choice([4, 5, 6, 6])
        g = scen["graph"]
        # keep at least one typing triple
        tpx = scen["options"].get("instantiation_property", gen.RDF_TYPE)
        typing = [t for t in g if t[1][1] == tpx]
        rest = [t for t in g if t[1][1] != tpx]
        rng.shuffle(typing)
        rng.shuffle(rest)
        g = sorted((typing[:max(1, k // 2)] + rest)[:k], key=repr)
        scen["graph"] = g
        scen["schema"] = False
        scen["relabel"] = {}
        scen["target"] = {"all_classes_mode": True}
        scen["family"] = "document"
        scen["format"] = "nt"
        perms = [list(p) for p in itertools.permutations(range(len(g)))]
        for ci in range(0, len(perms), 180):
            c = copy.deepcopy(scen)
            c["orders"] = [[p, p] for p in perms[ci:ci + 180]]
            c["exhaustive_block"] = [ci, len(perms)]
            out.append(("exh-doc-%d-%d" % (gi, ci), c))
        if len(g) >= 4:
            g4 = g[:4]
            p4 = [list(p) for p in itertools.permutations(range(4))]
            c = copy.deepcopy(scen)
            c["graph"] = g4
            c["family"] = "store"
            c["orders"] = [[a, b] for a in p4 for b in p4]
            c["exhaustive_block"] = [0, len(c["orders"])]
            out.append(("exh-store-%d" % gi, c))
    # all orders of a graph whose selected nodes point, through three equally frequent properties, to nodes of a shape that
    # ends up empty and is removed together with every constraint that mentions it
    g = []
    for a in ("a1", "a2"):
        g.append((gen.iri(gen.EX + a), gen.iri(gen.EX + "p1"), gen.iri(gen.EX + "b1")))
        g.append((gen.iri(gen.EX + a), gen.iri(gen.EX + "p2"), gen.iri(gen.EX + "b2")))
        g.append((gen.iri(gen.EX + a), gen.iri(gen.EX + "p3"), gen.lit("v", gen.XSD + "string")))
    perms = [list(p) for p in itertools.permutations(range(len(g)))]
    sm = "\n".join(["<%s%s>@<http://sh.org/A>" % (gen.EX, x) for x in ("a1", "a2")] + ["<%s%s>@<http://sh.org/B>" % (gen.EX, x) for x in ("b1", "b2")])
    for ci in range(0, len(perms), 240):
        out.append(("exh-emptied-%d" % ci, {
            "family": "document", "format": "nt", "schema": False, "ttl_prefixed": None, "graph": gen.L(g),
            "target": {"shape_map_raw": sm}, "options": {"instances_report_mode": "mixed"}, "ns": dict(gen.BASE_NS),
            "relabel": {}, "orders": [[p, p] for p in perms[ci:ci + 240]], "exhaustive_block": [ci, len(perms)]}))
    return out


def shrink(scen):
    # fewer orders first
    if len(scen["orders"]) > 1:
        for i in range(len(scen["orders"])):
            c = copy.deepcopy(scen)
            c["orders"] = [c["orders"][i]]
            yield c
        return
    g = scen["graph"]
    n = len(g)
    size = n // 2
    while size >= 1:
        for start in range(0, n, size):
            drop = set(range(start, min(n, start + size)))
            c = copy.deepcopy(scen)
            c["graph"] = [t for i, t in enumerate(g) if i not in drop]
            c["orders"] = [[_project(p1, drop), _project(p2, drop)] for (p1, p2) in scen["orders"]]
            c["schema"] = False      # a sub-graph of a schema-consistent graph is not schema-consistent
            yield c
        size //= 2
    for key in sorted(scen["options"]):
        if key == "instances_report_mode":
            continue
        c = copy.deepcopy(scen)
        del c["options"][key]
        yield c
    if scen["relabel"]:
        c = copy.deepcopy(scen)
        c["relabel"] = {}
        yield c
    if scen["format"] != "nt":
        c = copy.deepcopy(scen)
        c["format"] = "nt"
        yield c
    p1, p2 = scen["orders"][0]
    if p1 != p2:
        c = copy.deepcopy(scen)
        c["orders"] = [[p1, list(p1)]]
        yield c
        c = copy.deepcopy(scen)
        c["orders"] = [[list(range(n)), p2]]
        yield c


def _restrict(p, n):
    return [i for i in p if i < n]


def _project(p, drop):
    """remove dropped indices from permutation p and renumber"""
    kept = sorted(set(p) - set(drop))
    ren = {old: new for new, old in enumerate(kept)}
    return [ren[i] for i in p if i not in drop]
