#!/venv/bin/python
"""Confirm a seeded breaking change and run the checks against it.

usage: tools/try_seed.py <dir with patch.diff + demo.py> <PROPERTY> [--tier quick|thorough] [--all] [--no-suite]

Works on a scratch copy of /repo's working tree (outside /repo and /verif, removed afterwards):
  1. patch applies;  2. the repository's test suite still gives 182 passed / the same failures;
  3. demo.py exits 1 on the patched copy and 0 on the unchanged tree;
  4. bin/check <PROPERTY> <tier> against the patched copy (DSIM_REPO) - exit 1 expected.
Prints one JSON object.
"""
import json
import os
import shutil
import subprocess
import sys
import tempfile
import time

VERIF = os.path.dirname(os.path.dirname(os.path.abspath(__file__)))
REPO = "/repo"


def sh(cmd, cwd=None, env=None, timeout=3600):
    p = subprocess.run(cmd, cwd=cwd, env=env, capture_output=True, text=True, timeout=timeout)
    return p.returncode, p.stdout, p.stderr


def main():
    args = sys.argv[1:]
    seed_dir, prop = os.path.abspath(args[0]), args[1]
    tier = "quick"
    props = [prop]
    suite = True
    extra_args = []
    for i, a in enumerate(args):
        if a == "--count":
            extra_args = ["--count", args[i + 1]]
        if a == "--tier":
            tier = args[i + 1]
        if a == "--all":
            props = ["C08", "C09", "C15", "C16", "C18", "C19"]
        if a == "--no-suite":
            suite = False
    work = tempfile.mkdtemp(prefix="dsim-seed-")
    dst = os.path.join(work, "repo")
    res = {"seed": seed_dir, "property": prop, "tier": tier}
    try:
        shutil.copytree(REPO, dst, ignore=shutil.ignore_patterns(".git", "__pycache__", "*.pyc", ".pytest_cache"))
        rc, out, err = sh(["patch", "-p1", "-s", "-i", os.path.join(seed_dir, "patch.diff")], cwd=dst)
        res["patch_applies"] = rc == 0
        if rc != 0:
            res["patch_error"] = (out + err)[-400:]
            print(json.dumps(res, indent=1))
            return 2
        env = dict(os.environ)
        env["PYTHONPATH"] = dst
        env.pop("SHEXER_VERIF", None)
        demo = os.path.join(seed_dir, "demo.py")
        rc1, o1, e1 = sh(["/venv/bin/python", demo], cwd=work, env=env, timeout=1800)
        env2 = dict(env)
        env2["PYTHONPATH"] = REPO
        rc0, o0, e0 = sh(["/venv/bin/python", demo], cwd=work, env=env2, timeout=1800)
        res["demo_exit_patched"] = rc1
        res["demo_exit_unchanged"] = rc0
        res["demo_tail_patched"] = (o1 + e1).strip().splitlines()[-3:]
        if suite:
            rc, out, err = sh(["/bin/sh", "-c", "/venv/bin/python -m pytest -q -p no:cacheprovider --timeout=900 2>&1 | tail -1"], cwd=dst, env=env)
            res["suite_tail"] = out.strip()
            res["suite_ok"] = "182 passed" in out and "20 failed" in out
        for p in props:
            env3 = dict(os.environ)
            env3["DSIM_REPO"] = dst
            env3.pop("PYTHONHASHSEED", None)
            env3.pop("DSIM_NO_REEXEC", None)
            t0 = time.time()
            rc, out, err = sh([os.path.join(VERIF, "bin", "check"), p, tier, "--no-selftest"] + extra_args, env=env3, timeout=6 * 3600)
            res["check_%s_exit" % p] = rc
            res["check_%s_s" % p] = round(time.time() - t0, 1)
            res["check_%s_violations" % p] = [l[:260] for l in out.splitlines() if l.startswith("violation:")][:4]
            if rc not in (0, 1):
                res["check_%s_tail" % p] = (out + err)[-500:]
    finally:
        shutil.rmtree(work, ignore_errors=True)
    print(json.dumps(res, indent=1))
    return 0


if __name__ == "__main__":
    sys.exit(main())
