"""Reader for exactly the ShExC text that sheXer's ShexSerializer emits.

Line oriented, whitespace- and order-insensitive, prefix-expanding.  Lines it
does not understand are collected in `unparsed` (never an exception): a change
of wording in the serializer then degrades precision of the comparators instead
of raising an alarm (C05 is not claimed).
"""
import re

_PREFIX = re.compile(r"^PREFIX (\S*): <(.*)>$")
_HEADER = re.compile(r"^(\S+)(?:\s+\[<(.*)>~\]\s+AND)?(?:\s+# (\d+) instances?\.)?$")
# figures:  "100.0 % (5 instances)."  |  "100.0 %"  |  "5 instances."
_FIG_MIXED = re.compile(r"^([0-9.eE+-]+) % \((\d+) instances?\)\.")
_FIG_RATIO = re.compile(r"^([0-9.eE+-]+) %")
_FIG_ABS = re.compile(r"^(\d+) instances?\.")
_CARD = re.compile(r"^(\*|\+|\?|\{\d+\})$")


def _parse_fig(text):
    """-> (n or None, ratio or None, rest)"""
    text = text.strip()
    m = _FIG_MIXED.match(text)
    if m:
        return int(m.group(2)), float(m.group(1)), text[m.end():].strip()
    m = _FIG_RATIO.match(text)
    if m:
        return None, float(m.group(1)), text[m.end():].strip()
    m = _FIG_ABS.match(text)
    if m:
        return int(m.group(1)), None, text[m.end():].strip()
    return None


class Doc(object):
    def __init__(self):
        self.prefixes = {}
        self.prefix_lines = []       # in order, raw
        self.shapes = {}             # expanded label -> shape dict
        self.order = []              # labels in document order
        self.unparsed = []
        self.ok = True


def expand(tok, prefixes):
    at = ""
    if tok.startswith("@"):
        at = "@"
        tok = tok[1:]
    br = False
    if tok.startswith("[") and tok.endswith("]"):
        br = True
        tok = tok[1:-1]
    if not tok.startswith("<") and not tok.startswith('"') and ":" in tok:
        p, l = tok.split(":", 1)
        if p in prefixes:
            tok = "<" + prefixes[p] + l + ">"
    return at + ("[" + tok + "]" if br else tok)


def parse(text, perm=0):
    import itertools
    doc = Doc()
    doc.n_perms = 1
    cur = None
    last = None
    for raw in text.split("\n"):
        s = raw.strip()
        if not s:
            continue
        m = _PREFIX.match(s)
        if m and cur is None:
            if m.group(1) in doc.prefixes and doc.prefixes[m.group(1)] != m.group(2):
                # sheXer can emit two PREFIX lines with one label (a parsed source re-using a label of the caller's
                # dictionary): names with that label are ambiguous; expand them to the sorted set of candidates so that
                # the order of the PREFIX lines does not matter
                prev = doc.prefixes[m.group(1)]
                cands = set(prev[1:-1].split("|")) if prev.startswith("{") else {prev}
                cands.add(m.group(2))
                doc.prefixes[m.group(1)] = "{" + "|".join(sorted(cands)) + "}"
            else:
                doc.prefixes[m.group(1)] = m.group(2)
            doc.prefix_lines.append(s)
            continue
        if s == "{":
            continue
        if s.startswith("}"):
            if cur is not None:
                ex = s[1:].strip()
                if ex.startswith("// rdfs:comment"):
                    cur["example"] = ex[len("// rdfs:comment"):].strip()
            cur = None
            last = None
            continue
        if cur is None:
            m = _HEADER.match(s)
            if not m:
                doc.unparsed.append(s)
                doc.ok = False
                continue
            cur = {"label": m.group(1), "stem": m.group(2),
                   "n": None if m.group(3) is None else int(m.group(3)),
                   "cons": [], "example": None}
            key = m.group(1)
            k = 1
            while key in doc.shapes:      # two classes with the same local name give two shapes with one label
                k += 1
                key = "%s\x00%d" % (m.group(1), k)
            doc.shapes[key] = cur
            doc.order.append(key)
            continue
        if s.startswith("//"):
            if last is not None:
                last["examples"].append(s)
            else:
                doc.unparsed.append(s)
            continue
        if s.startswith("#"):
            fig = _parse_fig(s[1:])
            if fig is None or last is None:
                doc.unparsed.append(s)
                continue
            n, r, rest = fig
            m = re.match(r"^obj: (.*)\. Cardinality: (\S+)$", rest)
            if m:
                last["comments"].append((m.group(1), m.group(2), n, r))
                continue
            m = re.match(r"^with cardinality (\S+)$", rest)
            if m:
                last["comments"].append(("<OR>", m.group(1), n, r))
                continue
            doc.unparsed.append(s)
            continue
        # constraint line
        fig = None
        body = s
        if "#" in s:
            # '#' may also occur inside <IRIs>; the figure comment is the last '# ' chunk
            idx = s.rfind("# ")
            f = _parse_fig(s[idx + 1:]) if idx >= 0 else None
            if f is not None and f[2] == "":
                fig = (f[0], f[1])
                body = s[:idx].strip()
        if body.endswith(";"):
            body = body[:-1].strip()
        toks = body.split()
        if len(toks) < 2:
            doc.unparsed.append(s)
            continue
        inv = False
        if toks[0] == "^":
            inv = True
            toks = toks[1:]
        pred = toks[0]
        rest = toks[1:]
        card = "{1}"
        if rest and _CARD.match(rest[-1]):
            card = rest[-1]
            rest = rest[:-1]
        values = [t for t in rest if t != "OR"]
        if not values:
            doc.unparsed.append(s)
            continue
        last = {"inv": inv, "pred": pred, "values": values, "card": card, "fig": fig,
                "comments": [], "examples": []}
        cur["cons"].append(last)
    # expand
    out = {}
    order = []
    dups = {}
    for lab in doc.order:
        sh = doc.shapes[lab]
        L = expand(sh["label"], doc.prefixes)
        dups.setdefault(L, []).append(lab)
    rename = {}
    for L, labs in dups.items():
        if len(labs) > 1:
            # canonical, order-independent names for same-label shapes: sorted by their own content
            # tell them apart by the class they describe: the value set of their most frequent '[...]' constraint
            def discriminator(x):
                best = None
                for c in doc.shapes[x]["cons"]:
                    vs = [expand(v, doc.prefixes) for v in c["values"] if v.startswith("[")]
                    if vs and not c["inv"]:
                        n = c["fig"][0] if c["fig"] and c["fig"][0] is not None else -1
                        cand = (n, tuple(sorted(vs)))
                        if best is None or cand[0] > best[0] or (cand[0] == best[0] and cand[1] < best[1]):
                            best = cand
                return best[1] if best else None
            disc = {x: discriminator(x) for x in labs}
            if None not in disc.values() and len(set(disc.values())) == len(labs):
                for x in labs:
                    rename[x] = "%s~%s" % (L, "+".join(disc[x]))
            else:
                labs_sorted = sorted(labs, key=lambda x: repr((doc.shapes[x]["n"], sorted(repr((c["inv"], c["pred"], c["values"], c["card"], c["fig"]))
                                                                                         for c in doc.shapes[x]["cons"]))))
                # these shapes cannot be told apart by what they describe: the numbering is a guess, and the comparator
                # tries the other numberings of one side too (perm) before it reports a difference
                perms = list(itertools.islice(itertools.permutations(labs_sorted), 24))
                doc.n_perms = max(doc.n_perms, len(perms))
                for i, x in enumerate(perms[perm % len(perms)]):
                    rename[x] = "%s~%d" % (L, i + 1)
    for lab in doc.order:
        sh = doc.shapes[lab]
        L = rename.get(lab) or expand(sh["label"], doc.prefixes)
        sh["xlabel"] = L
        for c in sh["cons"]:
            c["xpred"] = expand(c["pred"], doc.prefixes)
            c["xvalues"] = tuple(expand(v, doc.prefixes) for v in c["values"])
            c["xcomments"] = [(expand(k, doc.prefixes), card, n, r) for (k, card, n, r) in c["comments"]]
        out[L] = sh
        order.append(L)
    doc.shapes = out
    doc.order = order
    return doc


_NODE_KINDS = ("IRI", "BNode", "NONLITERAL")


def value_class(v):
    """Collapse alternative node kinds / shape references into NODE (they are
    exactly the alternatives the tie rule is about)."""
    if v.startswith("["):
        return v
    if v.startswith("@") or v in _NODE_KINDS:
        return "NODE"
    return v


STATS = {"documents_read": 0, "lines_not_understood": 0, "documents_not_readable": 0}


class Evidence(object):
    """Order-insensitive views of one document."""

    def __init__(self, text, perm=0):
        self.text = text
        self.doc = parse(text, perm)
        self.n_perms = self.doc.n_perms
        d = self.doc
        STATS["documents_read"] += 1
        STATS["lines_not_understood"] += len(d.unparsed)
        if not d.ok:
            STATS["documents_not_readable"] += 1
        self.counts = {}
        self.stems = {}
        self.keys = set()
        self.facts = set()
        self.groups = {}     # (label, inv, pred) -> list of full constraint tuples
        self.full = {}
        self.n_constraints = 0
        self.max_ratio = 0.0
        for L, sh in d.shapes.items():
            self.counts[L] = sh["n"]
            self.stems[L] = sh["stem"]
            cl = []
            for c in sh["cons"]:
                self.n_constraints += 1
                P = c["xpred"]
                vc = tuple(sorted({value_class(v) for v in c["xvalues"]}))
                self.keys.add((L, c["inv"], P, vc))
                if c["fig"] is not None:
                    if c["fig"][0] is not None:
                        for v in c["xvalues"]:
                            self.facts.add((L, c["inv"], P, v, c["card"], c["fig"][0]))
                    if c["fig"][1] is not None:
                        self.max_ratio = max(self.max_ratio, c["fig"][1])
                cm = []
                for (K, card, n, r) in c["xcomments"]:
                    if n is not None and K != "<OR>":
                        self.facts.add((L, c["inv"], P, K, card, n))
                    if r is not None:
                        self.max_ratio = max(self.max_ratio, r)
                    cm.append((K, card, n, r))
                tup = (c["inv"], P, tuple(sorted(c["xvalues"])), c["card"],
                       c["fig"], tuple(sorted(cm, key=repr)))
                cl.append(tup)
                self.groups.setdefault((L, c["inv"], P), []).append(tup)
            self.full[L] = tuple(sorted(cl, key=repr))

    def normalised_lines(self):
        """fallback view: multiset of prefix-expanded whitespace-normalised lines"""
        out = []
        for raw in self.text.split("\n"):
            s = " ".join(raw.replace(";", " ").split())
            if not s or s.startswith("PREFIX"):
                continue
            out.append(" ".join(expand(t, self.doc.prefixes) for t in s.split(" ")))
        return sorted(out)
