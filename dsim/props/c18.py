"""C18 — results depend only on the arguments, not on output channel or call history.

Simulated system: a pool of one or two Shapers and a scripted caller; call
histories interleaved by the scheduler; sources rotate over raw string, file,
rdflib graph, SPARQL endpoint, URL; single faults (sink, source, peer) armed for
exactly one call and healed afterwards; the serializer's flush threshold is a
per-run knob.  Reference: the *fresh model* — a brand-new Shaper with deep
copies of the caller's original arguments, in a fault-free environment, called
once, knob = never flush.
"""
import copy
import os
import random

from .. import gen
from ..engine import generic_shrink
from ..world import target_kwargs
from .common import (Sim, SimEndpoint, Result, new_shaper, call, StepCapExceeded, violation, finish,
                     check_invariants, shape_stats, set_knob, NEVER_FLUSH, SHEXC, SHACL, shacl_digest,
                     components, sha)

ID = "C18"
LEVEL = "fault_enumeration"
HAS_CLOCK = True
COUNTS = {"quick": 3000, "thorough": 300000}
WALL = {"quick": 600, "thorough": 6 * 3600}
SHRINK_WALL = {"quick": 120, "thorough": 900}
SELFTEST_N = {"quick": 32, "thorough": 256}
CHUNK = 8
RULE = ("Scenario = seeded (graph, 1-2 Shapers (thorough: up to 3) with sources from {raw,file,files,gz,zip,zips,rdflib,endpoint,url,urls}, options, shared argument "
        "objects, interleaved history of <=4 shex_graph/profile_graph calls per Shaper over {ShExC,SHACL}x{string,file}x"
        "{0,.5,1}, at most one armed fault, flush knob in {1,2,3,7,50,5000}); plus systematic sweeps placing one "
        "source/sink/peer fault at every event index of sampled histories, default-knob outputs above 5 000 and 10 000 lines, and "
        "object-lifetime scenarios (forty extractions one after the other in one process, each dropped before the next, each compared with a pristine process), and "
        "overlapping-caller scenarios (2-3 caller tasks on real threads released one at a time by a seeded interleaver at seam events - line read, store triple, sink write, query, fetch - "
        "under 5-11 schedules each, nested or random with switch probability .05-1; every document compared with a pristine process running that task alone). "
        "Non-trivial = at least one non-empty shape AND (>=2 calls on one Shaper, or argument objects shared between two "
        "Shapers, or a fault that fired, or a mid-document flush); distinct = distinct scenario documents.")
COMPONENTS = components(["SPARQLWrapper (whole HTTP client) -> SimEndpoint", "time.sleep in io/sparql/query -> SimClock",
                         "urllib urlopen under rdflib -> SimHTTP", "open() in file_line_reader / shex_serializer -> SimFS wrapper over real temp files",
                         "thread scheduling of overlapping callers -> Interleaver (baton passing at seam events; the OS never chooses who runs)"])
ASSUMPTIONS = [
    "reference = sheXer itself in a fresh, fault-free environment (same channel kind, new Shaper, deep-copied original arguments): a defect that changes the first call of a fresh Shaper identically is invisible here",
    "SHACL outputs are compared up to graph isomorphism (rdflib to_isomorphic), ShExC outputs byte for byte",
    "a Shaper that keeps raising after a healed fault is counted (wedged_after_fault), not reported: no listed property promises recovery",
    "harness runs under PYTHONHASHSEED=0; the flush threshold knob is the guarded hook SHEXER_VERIF_FLUSH_LINES",
]

KNOBS = [1, 2, 3, 7, 50, 5000]
THRESHOLDS = [0, 0.5, 1]
EP_URL = "http://sim.test/sparql"


# ---------------------------------------------------------------------------
# generation
# ---------------------------------------------------------------------------

def _gen_shaper(rng, triples, source, ns_pressure, bnodes=False, tp=gen.RDF_TYPE):
    sp = {"source": source}
    # selectors over local sources are evaluated on an rdflib re-parse, which relabels blank nodes randomly
    sp["target"] = gen.gen_target(rng, triples, allow_shape_map=(not bnodes and source in ("raw", "file", "rdflib", "endpoint")), type_prop=tp)
    if source == "urls" and "shape_map_raw" in sp["target"]:
        sp["target"] = {"all_classes_mode": True}
    o = gen.gen_options(rng, allow_inverse=True, allow_disable_comments=True)
    if tp != gen.RDF_TYPE:
        o["instantiation_property"] = tp
    if rng.random() < 0.15:
        o["examples_mode"] = rng.choice(["all", "shape", "cons"])
    if rng.random() < 0.15:
        o["detect_minimal_iri"] = True
    if rng.random() < 0.1:
        o["instances_report_mode"] = rng.choice(["ratio", "abs"])
    if source == "endpoint":
        if rng.random() < 0.3:
            o["disable_endpoint_cache"] = True
    if rng.random() < 0.1 and "shape_map_raw" not in sp["target"]:
        o["instances_cap"] = rng.randint(1, 3)
    if rng.random() < 0.12:
        o["namespaces_to_ignore"] = rng.choice([[gen.EX], [gen.RDF_NS], [gen.EX, gen.RDF_NS], [gen.OTHER]])
    sp["options"] = o
    sp["ns"] = gen.gen_namespaces(rng, shape_prefix_pressure=ns_pressure)
    if source == "turtle" and rng.random() < 0.6:
        # the caller does not declare the vocabulary of the data; the document binds it to the empty prefix
        sp["ns"] = {k: v for k, v in sp["ns"].items() if k != gen.EX}
    if rng.random() < 0.3:
        sp["shapes_namespace"] = rng.choice(["http://shapes.org/a/", "http://shapes.org/b#"])
    return sp


def _gen_call(rng, first_threshold):
    r = rng.random()
    if r < 0.06:
        return {"op": "profile", "sink": rng.choice(["string", "file"])}
    c = {"op": "shex"}
    c["format"] = SHACL if rng.random() < 0.25 else SHEXC
    c["sink"] = "file" if rng.random() < 0.4 else "string"
    c["threshold"] = first_threshold if rng.random() < 0.5 else rng.choice(THRESHOLDS)
    return c


def generate(rng, tier, index):
    if index % 25 == 7:
        # overlapping callers inside the random batch too (the determinism self-test reruns the first indices)
        return _gen_overlap(random.Random("C18-overlap-batch:%r" % rng.random()), 4)
    faulty = rng.random() < 0.45
    endpoint_ok = rng.random() < 0.3
    kinds = ("node", "str", "int", "iri", "iri2") if endpoint_ok else ("node", "str", "int", "lang", "date", "iri", "iri2", "cdt")
    n_nodes = rng.choice([3, 4, 6, 8, 10]) if tier == "quick" else rng.choice([3, 4, 6, 8, 10, 14, 20])
    bnodes = (not endpoint_ok and rng.random() < 0.2)
    triples = gen.gen_graph(rng, n_nodes=n_nodes, n_classes=rng.randint(1, 3), n_props=rng.randint(1, 5),
                            bnodes=bnodes, kinds=kinds, twins=0 if endpoint_ok else 0.06)
    tp = gen.CUSTOM_TYPE if rng.random() < 0.12 else gen.RDF_TYPE
    triples = gen.retype(gen.ensure_class(triples), tp)
    # rdflib-parsed sources (url) relabel blank nodes on every pass (C08's stated exception): no bnodes there
    sources = ["raw", "file", "files", "gz", "zip", "zips", "rdflib"] + ([] if bnodes else ["url", "urls", "turtle"]) + (["endpoint", "endpoint"] if endpoint_ok else [])
    n_sh = 2 if rng.random() < 0.4 else 1
    if tier == "thorough" and rng.random() < 0.15:
        n_sh = 3
    pressure = 0.25
    shapers = [_gen_shaper(rng, triples, rng.choice(sources), pressure, bnodes, tp) for _ in range(n_sh)]
    share = {}
    if n_sh >= 2 and rng.random() < 0.15:
        # every Shaper prints its figures with its own number of decimals
        for k, sp in enumerate(shapers):
            sp["options"]["decimals"] = [1, 3, 2][k % 3]
            sp["options"]["instances_report_mode"] = "mixed"
    if n_sh >= 2:
        if rng.random() < 0.6:
            share["namespaces_dict"] = True
            for sp in shapers[1:]:
                sp["ns"] = shapers[0]["ns"]
        if "target_classes" in shapers[0]["target"] and rng.random() < 0.4:
            share["target_classes"] = True
            shapers[0]["target"].pop("_via_file", None)      # a shared list object, not a file
            if rng.random() < 0.5 and tp == gen.RDF_TYPE:
                # prefixed class names, resolved by each Shaper with its own namespaces; the second Shaper binds 'ex'
                # to another namespace, so for it the same list names other (absent) classes
                shapers[0]["target"]["target_classes"] = ["ex:" + c[len(gen.EX):] for c in shapers[0]["target"]["target_classes"]]
                if not share.get("namespaces_dict"):
                    ns2 = {k: v for k, v in shapers[1]["ns"].items() if v != "ex"}
                    ns2["http://elsewhere.org/"] = "ex"
                    shapers[1]["ns"] = ns2
            for sp in shapers[1:]:
                sp["target"] = copy.deepcopy(shapers[0]["target"])
        if rng.random() < 0.35:
            share["output_path"] = True
        if rng.random() < 0.3:
            # both Shapers read the very same rdflib.Graph object (the fresh model gets a new one)
            share["rdflib_graph"] = True
            for sp in shapers:
                sp["source"] = "rdflib"
    seqs = []
    for i in range(n_sh):
        t0 = rng.choice(THRESHOLDS)
        k = rng.randint(1, 5) if tier == "thorough" else rng.randint(1, 3)
        calls = []
        for _ in range(k):
            c = _gen_call(rng, t0)
            c["i"] = i
            calls.append(c)
        seqs.append(calls)
    # interleave at op granularity
    ops = [{"op": "new", "i": 0}]
    pending = [list(s) for s in seqs]
    created = {0}
    while any(pending):
        cands = [i for i in range(n_sh) if pending[i]]
        i = rng.choice(cands)
        if i not in created:
            ops.append({"op": "new", "i": i})
            created.add(i)
            continue
        ops.append(pending[i].pop(0))
    for j in range(1, n_sh):
        if j not in created:
            ops.append({"op": "new", "i": j})
            created.add(j)
    if n_sh >= 2 and rng.random() < 0.3:
        # construct the second Shaper between two calls of the first and call Shaper 0 again
        ops.append({"op": "shex", "i": 0, "format": SHEXC, "sink": "string", "threshold": seqs[0][0].get("threshold", 0)})
    if faulty:
        call_ops = [o for o in ops if o["op"] == "shex"]
        if call_ops:
            # bias: the first call of a Shaper creates all in-flight state
            firsts = []
            seen = set()
            for o in call_ops:
                if o["i"] not in seen:
                    seen.add(o["i"])
                    firsts.append(o)
            target = rng.choice(firsts) if rng.random() < 0.75 else rng.choice(call_ops)
            src = shapers[target["i"]]["source"]
            n_lines = len(triples)
            options = []
            if target["sink"] == "file" and target["format"] == SHEXC:
                options += [{"kind": "sink_enospc", "k": rng.randint(0, 40),
                             "errno": rng.choice(["ENOSPC", "ENOSPC", "EIO", "ESTALE", "EAGAIN", "EINTR"])},
                            {"kind": "sink_open_eacces", "errno": rng.choice(["EACCES", "EIO", "EINTR", "ESTALE", "EBUSY"])}]
            if src in ("file", "files"):
                options += [{"kind": "source_eio", "n": rng.randint(0, 2 * n_lines),
                             "errno": rng.choice(["EIO", "EIO", "ESTALE", "EINTR", "EAGAIN"])}] * 2
                options += [{"kind": "source_open", "k": rng.randint(0, 5), "errno": rng.choice(["ENOENT", "EACCES"])}]
            if src in ("zip", "zips"):
                options += [{"kind": "source_eio", "n": rng.randint(0, 2 * n_lines),
                             "errno": rng.choice(["EIO", "EIO", "ESTALE", "EINTR"])}] * 3
            if src == "gz":
                options += [{"kind": "torn_gz", "keep": rng.random()}] * 2
                options += [{"kind": "source_eio", "n": rng.randint(0, 2 * n_lines),
                             "errno": rng.choice(["EIO", "ESTALE", "EINTR"])}] * 2
            if src in ("url", "urls"):
                options += [{"kind": "url_reset", "fetch": rng.randint(0, 3), "after": rng.randint(1, 40 * max(1, n_lines))}]
            if src == "endpoint":
                options += [{"kind": "endpoint_outage", "at": rng.randint(0, 3 * n_nodes)},
                            {"kind": "endpoint_transient", "at": rng.randint(0, 3 * n_nodes),
                             "burst": rng.randint(1, 4), "code": rng.choice(["http503", "http429", "http500", "internal"])}]
            if src in ("url", "urls"):
                options += [{"kind": "url_500", "fetch": rng.randint(0, 1 if src == "url" else 5)}]
            if not options:
                # make the fault meaningful: give the call a file sink
                target["sink"] = "file"
                target["format"] = SHEXC
                options = [{"kind": "sink_enospc", "k": rng.randint(0, 40)}]
            target["fault"] = rng.choice(options)
            # retry after the fault on the same Shaper
            if rng.random() < 0.8:
                pos = ops.index(target)
                retry = {"op": "shex", "i": target["i"], "format": target["format"], "sink": rng.choice(["string", "file"]),
                         "threshold": target["threshold"]}
                ops.insert(pos + 1, retry)
    scen = {
        "config": "faults" if faulty else "fault_free",
        "graph": gen.L(triples),
        "shapers": shapers,
        "share": share,
        "ops": ops,
        "knob": rng.choice(KNOBS),
        "short_write_max": rng.choice([0, 0, 0, 5, 100, 1000]),      # raw layer of file sinks accepts that many bytes per call
        "row_seed": rng.randrange(1 << 30),
    }
    if rng.random() < 0.12:
        scen["ops"].append({"op": "knobsweep", "i": 0})
    return scen


# ---------------------------------------------------------------------------
# execution
# ---------------------------------------------------------------------------

class _World(object):
    def __init__(self, sim, scen):
        self.sim = sim
        self.scen = scen
        if scen.get("big"):
            self.triples = gen.gen_big_graph(**scen["big"])
        else:
            self.triples = [gen.T(t) for t in scen["graph"]]
        self.nt = gen.to_nt(self.triples)
        self.n_files = 0
        self.n_eps = 0
        self.shared_graph = None
        self.gz_files = {}        # path -> complete bytes (for the torn-file fault and its repair)

    def source_kwargs(self, spec, tag):
        src = spec["source"]
        sim = self.sim
        if src == "raw":
            return {"raw_graph": self.nt}, None
        if src == "file":
            self.n_files += 1
            return {"graph_file_input": sim.write_file("g_%s_%d.nt" % (tag, self.n_files), self.nt)}, None
        if src == "gz":
            import gzip
            self.n_files += 1
            p = sim.path("g_%s_%d.nt.gz" % (tag, self.n_files))
            data = gzip.compress(self.nt.encode("utf-8"))
            with open(p, "wb") as f:
                f.write(data)
            if tag.startswith("sut"):
                self.gz_files[p] = data
            return {"graph_file_input": p, "compression_mode": "gz"}, None
        if src in ("zip", "zips"):
            import zipfile
            self.n_files += 1
            k = max(1, len(self.triples) // 4)
            parts = [self.triples[i:i + k] for i in range(0, len(self.triples), k)] or [[]]
            groups = [parts] if src == "zip" else [parts[:2], parts[2:]]
            paths = []
            for a, members in enumerate(groups):
                p = sim.path("g_%s_%d_%d.zip" % (tag, self.n_files, a))
                with zipfile.ZipFile(p, "w") as z:
                    for j, m in enumerate(members):
                        z.writestr("part%d.nt" % j, gen.to_nt(m))
                paths.append(p)
            if src == "zip":
                return {"graph_file_input": paths[0], "compression_mode": "zip"}, None
            return {"graph_list_of_files_input": paths, "compression_mode": "zip"}, None
        if src == "files":
            self.n_files += 1
            k = max(1, len(self.triples) // 3)
            parts = [self.triples[i:i + k] for i in range(0, len(self.triples), k)] or [[]]
            return {"graph_list_of_files_input": [sim.write_file("g_%s_%d_%d.nt" % (tag, self.n_files, j), gen.to_nt(p))
                                                  for j, p in enumerate(parts)]}, None
        if src == "turtle":
            # a Turtle document that binds the empty prefix (the one sheXer prefers for its shapes) to a vocabulary of its own
            return {"raw_graph": gen.to_turtle(self.triples, empty_label=gen.EX), "input_format": "turtle"}, None
        if src == "rdflib":
            if tag.startswith("sut") and self.scen["share"].get("rdflib_graph"):
                if self.shared_graph is None:
                    self.shared_graph = gen.to_rdflib_graph(self.triples)
                    self.sim.probes["shared_rdflib_graph"] += 1
                return {"rdflib_graph": self.shared_graph}, None
            return {"rdflib_graph": gen.to_rdflib_graph(self.triples)}, None
        if src == "endpoint":
            ep = SimEndpoint(sim, self.triples, row_seed=self.scen.get("row_seed", 0))
            return {"url_endpoint": EP_URL}, ep
        if src == "url":
            self.n_files += 1
            url = "http://sim.test/g_%s_%d.nt" % (tag, self.n_files)
            sim.http.serve(url, self.nt, "application/n-triples")
            return {"url_graph_input": url}, None
        if src == "urls":
            self.n_files += 1
            k = max(1, len(self.triples) // 3)
            parts = [self.triples[i:i + k] for i in range(0, len(self.triples), k)] or [[]]
            urls = []
            for j, p in enumerate(parts):
                url = "http://sim.test/g_%s_%d_%d.nt" % (tag, self.n_files, j)
                sim.http.serve(url, gen.to_nt(p), "application/n-triples")
                urls.append(url)
            return {"list_of_url_input": urls}, None
        raise ValueError(src)


def _base_kwargs(spec):
    kw = {}
    kw.update(target_kwargs(spec["target"]))
    kw.update(copy.deepcopy(spec["options"]))
    if "shapes_namespace" in spec:
        kw["shapes_namespace"] = spec["shapes_namespace"]
    return kw


def _call_kwargs(op, path):
    kw = {"output_format": op["format"], "acceptance_threshold": op["threshold"]}
    if op["sink"] == "file":
        kw["output_file"] = path
    else:
        kw["string_output"] = True
    return kw


def _read(path):
    try:
        # a sink cut in the middle of a character is a wrong document, not a harness error
        with open(path, encoding="utf-8", errors="replace") as f:
            return f.read()
    except OSError:
        return None


def _prefix_lines(text):
    return sorted(l.strip() for l in text.split("\n") if l.startswith("@prefix"))


def _same(fmt, a, b):
    if a == b:
        return True
    if fmt == SHACL and a is not None and b is not None:
        try:
            # property shapes hang from rdflib BNodes with random ids, so the text is compared as a graph
            # (isomorphism) plus its prefix declarations (which are text-level behaviour of their own)
            return shacl_digest(a) == shacl_digest(b) and _prefix_lines(a) == _prefix_lines(b)
        except Exception:
            return False
    return False


def _collapse_examples(text):
    out = []
    for l in text.split("\n"):
        if out and l.strip().startswith("// rdfs:comment") and l == out[-1]:
            continue
        out.append(l)
    return "\n".join(out)


def _drop_prefix_lines(text):
    return "\n".join(l for l in text.split("\n") if not l.startswith("PREFIX "))


def lifetime_fresh(life, scratch):
    """Runs in a pristine process: one extraction of one lifetime of a 'lifetimes' scenario."""
    os.makedirs(scratch, exist_ok=True)
    sim = Sim(scratch)
    with sim:
        set_knob(NEVER_FLUSH)
        r = _run_life(sim, life)
    return {"kind": r.kind, "text": r.text, "exc": r.exc, "msg": r.msg}


def _run_life(sim, life):
    if "graph" in life:
        sim.set_endpoint(SimEndpoint(sim, [gen.T(t) for t in life["graph"]], row_seed=life.get("row_seed", 0)))
    return call(lambda: new_shaper(_lifetime_kwargs(life)).shex_graph(string_output=True), None)


def _lifetime_kwargs(life):
    kw = {"namespaces_dict": dict(gen.BASE_NS), "instances_report_mode": "mixed"}
    if "graph" in life:
        kw["url_endpoint"] = EP_URL          # the dataset behind the endpoint (a SimEndpoint over life["graph"])
    else:
        kw["raw_graph"] = life["doc"]
    kw.update(life.get("options", {}))
    kw.update(target_kwargs(life["target"]))
    if "input_format" in life:
        kw["input_format"] = life["input_format"]
    return kw


def _execute_lifetimes(scen, scratch):
    """Object lifetimes in one process: every extraction builds its objects, returns its document and is dropped before
    the next one starts (cycles collected), so a later extraction may get objects at the addresses of dead ones.
    Every document must equal the one a pristine process computes from the same arguments."""
    import gc
    from ..pristine import call as pristine_call
    sim = Sim(scratch)
    violations, verdicts, texts = [], [], []
    with sim:
        set_knob(NEVER_FLUSH)
        for j, life in enumerate(scen["lifetimes"]):
            r = _run_life(sim, life)
            gc.collect()
            ref = pristine_call("dsim.props.c18", "lifetime_fresh", life, os.path.join(scratch, "fresh"))
            sim.probes["lifetimes"] += 1
            verdicts.append(("life", j, r.brief()))
            sim.log.add("op", "life", j, r.brief())
            if (r.kind, r.exc) != (ref["kind"], ref["exc"]):
                violations.append(violation("history", "exception_parity", ["lifetime %d" % j, ref["kind"], r.brief()]))
            elif r.kind == "ok" and r.text != ref["text"]:
                violations.append(violation("history", "bytes_differ", {"lifetime": j, "expected": sha(ref["text"]), "got": sha(r.text)}))
            if r.kind == "ok":
                texts.append(r.text)
    return finish(sim, violations, verdicts, len(texts) >= 2, len(scen["lifetimes"]), texts)


# ---------------------------------------------------------------------------
# overlapping callers: the calls of two or three Shapers interleaved at seam events
# ---------------------------------------------------------------------------

def _task_kwargs(sim, task, tag):
    """materialise the source of one caller task; returns Shaper kwargs"""
    triples = [gen.T(t) for t in task["graph"]]
    kw = {"namespaces_dict": dict(gen.BASE_NS), "instances_report_mode": "mixed"}
    kw.update(copy.deepcopy(task.get("options", {})))
    kw.update(target_kwargs(task["target"]))
    src = task["source"]
    if src == "raw":
        kw["raw_graph"] = gen.to_nt(triples)
    elif src == "file":
        kw["graph_file_input"] = sim.write_file("ov_%s.nt" % tag, gen.to_nt(triples))
    elif src == "files":
        k = max(1, len(triples) // 2)
        kw["graph_list_of_files_input"] = [sim.write_file("ov_%s_%d.nt" % (tag, j), gen.to_nt(triples[a:a + k]))
                                           for j, a in enumerate(range(0, len(triples), k))]
    elif src == "tsv":
        kw["graph_file_input"] = sim.write_file("ov_%s.tsv" % tag, gen.to_tsv(triples))
        kw["input_format"] = "tsv_spo"
    elif src in ("gz", "xz"):
        import gzip
        import lzma
        p = sim.path("ov_%s.nt.%s" % (tag, src))
        with open(p, "wb") as f:
            f.write((gzip.compress if src == "gz" else lzma.compress)(gen.to_nt(triples).encode("utf-8")))
        kw["graph_file_input"] = p
        kw["compression_mode"] = src
    elif src == "zip":
        import zipfile
        p = sim.path("ov_%s.zip" % tag)
        k = max(1, len(triples) // 2)
        with zipfile.ZipFile(p, "w") as z:
            for j, a in enumerate(range(0, len(triples), k)):
                z.writestr("part%d.nt" % j, gen.to_nt(triples[a:a + k]))      # the same member names in every caller's archive
        kw["graph_file_input"] = p
        kw["compression_mode"] = "zip"
    elif src == "store":
        from ..world import SimStore
        kw["rdflib_graph"] = gen.to_rdflib_graph(triples, cls=SimStore).configure(sim, task.get("order_seed", 0), independent=True)
    elif src == "endpoint":
        kw["url_endpoint"] = EP_URL
    else:
        raise ValueError(src)
    return kw


def _run_task(sim, task, tag):
    """one caller: build a Shaper, make its calls.  Returns a list of Result (one, for the constructor, if that raised)."""
    out = []
    holder = {}
    r = call(lambda: holder.__setitem__("sh", new_shaper(_task_kwargs(sim, task, tag))))
    if r.kind == "exc":
        return [r]
    sh = holder["sh"]
    for j, c in enumerate(task["calls"]):
        path = sim.path("ov_out_%s_%d.txt" % (tag, j))
        ckw = _call_kwargs(c, path)
        r = call(lambda: sh.shex_graph(**ckw), None)
        if c["sink"] == "file" and r.kind == "ok":
            r.text = _read(path)
        out.append(r)
    return out


def _overlap_endpoint(sim, tasks):
    eps = [t for t in tasks if t["source"] == "endpoint"]
    if eps:
        # at most one dataset behind the address; rows in canonical order (the order of arrival of the queries of
        # different callers is the schedule's, and must not matter)
        sim.set_endpoint(SimEndpoint(sim, [gen.T(t) for t in eps[0]["graph"]], row_seed=0, canonical_rows=True))


def overlap_fresh(task, scratch):
    """Runs in a pristine process: one caller task alone."""
    os.makedirs(scratch, exist_ok=True)
    sim = Sim(scratch)
    with sim:
        set_knob(NEVER_FLUSH)
        _overlap_endpoint(sim, [task])
        rs = _run_task(sim, task, "fresh")
    return [{"kind": r.kind, "text": r.text, "exc": r.exc, "msg": r.msg} for r in rs]


def _execute_overlap(scen, scratch):
    """Caller tasks whose extractions overlap in time (each on its own thread, released one at a time by the seeded
    interleaver at seam events).  Every document of every task must equal what a pristine process computes for that task
    alone: constructing and using one Shaper must not alter the behaviour of another, wherever in the other's work it
    happens."""
    from ..pristine import call as pristine_call
    from ..world import Interleaver
    ov = scen["overlap"]
    tasks = ov["tasks"]
    violations, verdicts, texts = [], [], []
    refs = [pristine_call("dsim.props.c18", "overlap_fresh", t, os.path.join(scratch, "fresh")) for t in tasks]
    runs = len(tasks)
    events0 = None
    for si, sched in enumerate(ov["schedules"]):
        sim_scratch = os.path.join(scratch, "s%d" % si)
        os.makedirs(sim_scratch, exist_ok=True)
        sim = Sim(sim_scratch)
        with sim:
            set_knob(sched.get("knob", NEVER_FLUSH))
            _overlap_endpoint(sim, tasks)
            nested_at = None
            if sched["mode"] == "nested":
                nested_at = int(sched["frac"] * (events0 or 0))
            ilv = Interleaver(sim, sched.get("seed", 0), switch_p=sched.get("p", 0.0), nested_at=nested_at)
            sim.interleaver = ilv
            fns = {i: (lambda i=i: _run_task(sim, tasks[i], "t%d" % i)) for i in range(len(tasks))}
            try:
                res = ilv.run(fns)
            finally:
                sim.interleaver = None
            runs += len(tasks)
        if events0 is None:
            events0 = ilv.events[0]
        overlapped = ilv.switches > 0
        for i in range(len(tasks)):
            got = res.get(i)
            if isinstance(got, StepCapExceeded):
                violations.append(violation("termination", "step_cap", str(got)))
                continue
            if isinstance(got, BaseException) or got is None:
                raise RuntimeError("overlap task %d ended with %r" % (i, got))
            ref = refs[i]
            fmts = [c["format"] for c in tasks[i]["calls"]]
            verdicts.append(("overlap", si, i, [("ok:shacl" if (r.kind == "ok" and len(got) == len(fmts) and fmts[j] == SHACL) else r.brief())
                                                 for j, r in enumerate(got)]))
            if len(got) != len(ref):
                violations.append(violation("overlap", "exception_parity", {"schedule": si, "task": i, "expected_calls": len(ref), "got_calls": len(got),
                                                                            "got": [r.brief() for r in got]}))
                continue
            for j, (r, f) in enumerate(zip(got, ref)):
                fmt = tasks[i]["calls"][j]["format"] if len(got) == len(tasks[i]["calls"]) else SHEXC
                if (r.kind, r.exc) != (f["kind"], f["exc"]):
                    violations.append(violation("overlap", "exception_parity", {"schedule": si, "task": i, "call": j, "expected": f["exc"] or f["kind"],
                                                                                "got": r.brief(), "msg": (r.msg or f["msg"] or "")[:160]}))
                elif r.kind == "ok" and not _same(fmt, f["text"], r.text):
                    import difflib
                    d = list(difflib.unified_diff((f["text"] or "").splitlines(), (r.text or "").splitlines(), lineterm="", n=0))[:10]
                    violations.append(violation("overlap", "bytes_differ", {"schedule": si, "sched": sched, "task": i, "call": j,
                                                                            "expected": sha(f["text"]), "got": sha(r.text), "diff": d}))
                if r.kind == "ok" and fmt == SHEXC:
                    texts.append(r.text)
        sim.probes["overlap_schedules"] += 1
        if overlapped:
            sim.probes["overlap_schedules_with_switches"] += 1
        sim.probes["overlap_switches"] += ilv.switches
        sim.probes["overlap_seam_events"] += sum(ilv.events.values())
        if si == 0:
            acc = sim
        else:
            acc.probes.update(sim.probes)
            for e in sim.log.events:
                acc.log.events.append(e)
    shapes = max([shape_stats(t)[1] for t in texts] or [0])
    return finish(acc, violations, verdicts, shapes > 0 and acc.probes.get("overlap_switches", 0) > 0, runs, texts)



def execute(scen, scratch):
    if "lifetimes" in scen:
        return _execute_lifetimes(scen, scratch)
    if "overlap" in scen:
        return _execute_overlap(scen, scratch)
    sim = Sim(scratch)
    sim.fs.short_write_max = scen.get("short_write_max", 0)
    violations = []
    verdicts = []
    out_texts = []
    runs = 0
    with sim:
        w = _World(sim, scen)
        specs = scen["shapers"]
        orig_ns = [copy.deepcopy(s["ns"]) for s in specs]
        shared_ns_obj = copy.deepcopy(specs[0]["ns"]) if scen["share"].get("namespaces_dict") else None
        shared_targets = None
        if scen["share"].get("target_classes"):
            shared_targets = list(specs[0]["target"]["target_classes"])
        shapers = {}
        eps = {}
        state = {}     # per shaper: calls done, first_threshold, faulted, shacl_done ...
        fresh_cache = {}

        def fresh(i, fmt, thr, op_kind="shex"):
            """the fresh model of one call, computed in a pristine process (dsim/pristine.py): a brand-new Shaper with
            the caller's original arguments, a fault-free world of its own, never-flush knob"""
            key = (i, fmt, thr, op_kind)
            if key in fresh_cache:
                return fresh_cache[key]
            nonlocal runs
            from .. import pristine
            d = pristine.call("dsim.props.c18", "compute_fresh", scen, i, fmt, thr, op_kind,
                              os.path.join(scratch, "fresh"))
            r = Result(d["kind"], text=d["text"], exc=d["exc"], msg=d["msg"], groups=d["groups"])
            runs += 1
            fresh_cache[key] = r
            return r

        def construct(i):
            spec = specs[i]
            kw = _base_kwargs(spec)
            if shared_ns_obj is not None:
                kw["namespaces_dict"] = shared_ns_obj
                sim.probes["shared_args"] += 1
            else:
                kw["namespaces_dict"] = copy.deepcopy(spec["ns"])
            if shared_targets is not None and "target_classes" in kw:
                kw["target_classes"] = shared_targets
            skw, ep = w.source_kwargs(spec, "sut%d" % i)
            kw.update(skw)
            if ep is not None:
                eps[i] = ep
                sim.set_endpoint(ep)
            r = call(lambda: shapers.__setitem__(i, new_shaper(kw)))
            state[i] = {"calls": 0, "ok_shex": 0, "first_threshold": None, "faulted": False, "healed_calls": 0,
                        "ctor": r, "shacl_before": False, "other_constructed_after": False}
            for j in state:
                if j != i:
                    state[j]["other_constructed_after"] = True
            return r

        try:
            for opi, op in enumerate(scen["ops"]):
                kind = op["op"]
                i = op.get("i", 0)
                if kind == "new":
                    r = construct(i)
                    verdicts.append(("new", i, r.brief() if r.kind == "exc" else "ok"))
                    sim.log.add("op", "new", i, r.kind)
                    continue
                if kind == "knobsweep":
                    violations += _knobsweep(sim, w, specs[i], orig_ns[i], scen)
                    runs += 2 * len(KNOBS) + 1
                    continue
                if i not in state:
                    continue
                st = state[i]
                if kind == "profile":
                    ref = fresh(i, None, None, "profile")
                    if i in eps:
                        sim.set_endpoint(eps[i])
                    set_knob(scen["knob"])
                    if st["ctor"].kind == "exc":
                        continue
                    sh = shapers[i]
                    path = sim.path("prof_%d.json" % opi)
                    r = call((lambda: sh.profile_graph(string_output=True)) if op["sink"] == "string"
                             else (lambda: sh.profile_graph(output_file=path)))
                    runs += 1
                    verdicts.append(("profile", i, r.kind, r.exc))
                    sim.log.add("op", "profile", i, r.brief())
                    if (ref.kind, ref.exc) != (r.kind, r.exc):
                        violations.append(violation("history", "exception_parity", ["profile", ref.brief(), r.brief()]))
                    continue
                # ---- shex
                fmt, thr = op["format"], op["threshold"]
                ref = fresh(i, fmt, thr)            # always computed with no fault armed
                if st["ctor"].kind == "exc":
                    # constructor raised: the fresh model must raise the same way
                    if ref.kind != "exc" or ref.exc != st["ctor"].exc:
                        violations.append(violation("history", "exception_parity", ["ctor", ref.brief(), st["ctor"].brief()]))
                    verdicts.append(("shex", i, "ctor-exc"))
                    continue
                sh = shapers[i]
                if i in eps:
                    sim.set_endpoint(eps[i])
                # every file call of a Shaper rewrites the same path; sometimes all Shapers of the scenario take turns on one
                path = sim.path("out_shared.txt" if scen["share"].get("output_path") else "out_shaper%d.txt" % i)
                fault = op.get("fault")
                fired_before = sum(sim.faults.values())
                armed = _arm(sim, eps.get(i), fault)
                if fault and fault["kind"] == "torn_gz" and w.gz_files:
                    # a partial write of the source: the .gz ends before its end-of-stream marker
                    for gp, data in w.gz_files.items():
                        with open(gp, "wb") as f:
                            f.write(data[:max(1, int(len(data) * fault["keep"]))])
                    sim.faults["source_torn_gz"] += 1
                    sim.log.add("source", "fault:torn_gz")
                set_knob(scen["knob"])
                appends_before = sim.fs.append_opens
                ckw = _call_kwargs(op, path)
                r = call(lambda: sh.shex_graph(**ckw), sh)
                runs += 1
                _heal(sim, eps.get(i))
                if fault and fault["kind"] == "torn_gz":
                    for gp, data in w.gz_files.items():
                        with open(gp, "wb") as f:
                            f.write(data)
                fault_fired = sum(sim.faults.values()) > fired_before
                if op["sink"] == "file" and r.kind == "ok":
                    r.text = _read(path)
                if sim.fs.append_opens - appends_before > 1:
                    sim.probes["multi_flush"] += 1
                st["calls"] += 1
                brief = r.brief()
                if fmt == SHACL and r.kind == "ok":     # rdflib BNode ids are random: digest the isomorphism class
                    try:
                        brief = "ok:shacl:" + shacl_digest(r.text)
                    except Exception:
                        brief = "ok:shacl:unparseable"
                sim.log.add("op", "shex", i, fmt, op["sink"], thr, brief, "fault_fired" if fault_fired else "")
                verdicts.append(("shex", i, brief))
                if r.kind == "ok" and r.text is not None:
                    out_texts.append(r.text if fmt == SHEXC else "shacl")
                # ---------------- oracles
                vs = []
                if fault_fired:
                    sim.probes["fault_fired_in_call"] += 1
                    st["faulted"] = True
                    # narrow relaxation: the faulted call may raise; never return a wrong document
                    if r.kind == "ok" and not (ref.kind == "ok" and _same(fmt, ref.text, r.text)):
                        vs.append(_classify(sim, "fault_never_wrong_data", st, op, ref, r, specs[i], fresh, i))
                    elif r.kind == "ok":
                        sim.probes["faulted_call_still_correct"] += 1
                    else:
                        sim.probes["faulted_call_raised"] += 1
                else:
                    if st["faulted"]:
                        st["healed_calls"] += 1
                    if r.kind == "exc" and st["faulted"] and (ref.kind, ref.exc) != (r.kind, r.exc):
                        # narrow relaxation: after a fault the object may keep raising; it may never return wrong data
                        sim.probes["wedged_after_fault"] += 1
                    elif r.kind == "exc" or ref.kind == "exc":
                        if (r.kind, r.exc) != (ref.kind, ref.exc):
                            vs.append(violation("history", "exception_parity", [ref.brief(), r.brief(), (r.msg or ref.msg or "")[:160]]))
                    elif not _same(fmt, ref.text, r.text):
                        oracle = "fault_history" if st["faulted"] else "history"
                        vs.append(_classify(sim, oracle, st, op, ref, r, specs[i], fresh, i))
                    else:
                        if st["faulted"]:
                            sim.probes["failed_then_retried_ok"] += 1
                if r.kind == "ok" and fmt == SHEXC and r.text and specs[i]["options"].get("instances_report_mode") == "mixed":
                    inv = check_invariants(r.text, w.triples)
                    if inv and ref.kind == "ok" and not check_invariants(ref.text, w.triples):
                        vs += inv     # only when the fresh model itself satisfies them (C01/C10 are not claimed)
                if r.kind == "ok":
                    st["ok_shex"] += 1
                    if st["first_threshold"] is None:
                        st["first_threshold"] = thr
                    if fmt == SHACL:
                        st["shacl_before"] = True
                violations += [v for v in vs if v]
        except StepCapExceeded as e:
            violations.append(violation("termination", "step_cap", str(e)))
    shapes = 0
    for t in out_texts:
        if t != "shacl":
            shapes = max(shapes, shape_stats(t)[1])
    multi_call = any(s["calls"] >= 2 for s in state.values())
    nontrivial = (shapes > 0) and (multi_call or bool(scen["share"]) or sum(sim.faults.values()) > 0
                                   or sim.probes.get("multi_flush", 0) > 0)
    return finish(sim, violations, verdicts, nontrivial, runs, out_texts)


def compute_fresh(scen, i, fmt, thr, op_kind, scratch):
    """Runs in a pristine process.  Pure function of the scenario document."""
    os.makedirs(scratch, exist_ok=True)
    sim = Sim(scratch)
    with sim:
        w = _World(sim, scen)
        spec = scen["shapers"][i]
        kw = _base_kwargs(spec)
        kw["namespaces_dict"] = copy.deepcopy(spec["ns"])
        skw, ep = w.source_kwargs(spec, "fresh%d" % i)
        kw.update(skw)
        if ep is not None:
            sim.set_endpoint(ep)
        set_knob(NEVER_FLUSH)
        holder = {}

        def fn():
            holder["sh"] = new_shaper(kw)
            if op_kind == "profile":
                return holder["sh"].profile_graph(string_output=True)
            return holder["sh"].shex_graph(string_output=True, output_format=fmt, acceptance_threshold=thr)
        r = call(fn, None)
        groups = None
        if r.kind == "ok" and "sh" in holder:
            from ..compare import profile_groups
            groups = profile_groups(holder["sh"])
    return {"kind": r.kind, "text": r.text, "exc": r.exc, "msg": r.msg, "groups": groups}


def _arm(sim, ep, fault):
    if not fault:
        return False
    k = fault["kind"]
    if k == "sink_enospc":
        sim.fs.write_fault_left = int(fault["k"])
        sim.fs.write_errno = fault.get("errno", "ENOSPC")
    elif k == "sink_open_eacces":
        sim.fs.open_fault = fault.get("errno", "EACCES")
    elif k == "source_eio":
        sim.fs.read_fault_left = int(fault["n"])
        sim.fs.read_errno = fault.get("errno", "EIO")
    elif k == "source_open":
        sim.fs.read_open_fault = (int(fault["k"]), fault.get("errno", "ENOENT"))
    elif k == "url_reset":
        sim.http.reset_fetches[sim.http.fetches + int(fault["fetch"])] = int(fault["after"])
    elif k == "endpoint_outage" and ep is not None:
        ep.plan.append((ep.attempt + int(fault["at"]), 10 ** 6, fault.get("code", "http503")))
    elif k == "endpoint_transient" and ep is not None:
        ep.plan.append((ep.attempt + int(fault["at"]), int(fault["burst"]), fault["code"]))
    elif k == "url_500":
        sim.http.fail_fetches[sim.http.fetches + int(fault["fetch"])] = 500
    return True


def _heal(sim, ep):
    sim.fs.write_fault_left = -1
    sim.fs.read_fault_left = -1
    sim.fs.open_fault = None
    sim.fs.read_open_fault = None
    sim.http.fail_fetches.clear()
    sim.http.reset_fetches.clear()
    if ep is not None:
        ep.plan = []
        ep.outage = None


def _classify(sim, oracle, st, op, ref, r, spec, fresh, i):
    """Label a difference with the *predicted wrong behaviour* it matches exactly
    (known_findings.json lists which labels are known); otherwise sig=None."""
    fmt = op["format"]
    sig = None
    detail = {"expected": sha(ref.text or ""), "got": sha(r.text or ""), "op": {k: v for k, v in op.items() if k != "fault"},
              "calls_before": st["calls"] - 1}
    if r.text is None:
        return violation(oracle, "missing_file", detail)
    if fmt == SHEXC and ref.kind == "ok":
        # (a) threshold of the first call is used instead of this call's
        if st["first_threshold"] is not None and st["first_threshold"] != op["threshold"]:
            alt = fresh(i, fmt, st["first_threshold"])
            if alt.kind == "ok" and alt.text == r.text:
                sig = "threshold_of_first_call_reused"
        # (b) example annotations accumulate
        if sig is None and spec["options"].get("examples_mode") in ("all", "cons") and st["ok_shex"] >= 1:
            if _collapse_examples(r.text) == ref.text:
                sig = "example_annotations_duplicated"
        # (c)/(d) only PREFIX lines differ
        if sig is None and _drop_prefix_lines(r.text) == _drop_prefix_lines(ref.text):
            extra = set(r.text.split("\n")) - set(ref.text.split("\n"))
            if extra == {"PREFIX sh: <http://www.w3.org/ns/shacl#>"} and st["shacl_before"]:
                sig = "shacl_prefix_leaks_into_shexc"
            else:
                sig = None
                detail["prefix_lines_only"] = sorted(extra)[:4]
    try:
        import difflib
        d = [l for l in difflib.unified_diff((ref.text or "").split("\n"), (r.text or "").split("\n"), lineterm="", n=0)][:12]
        detail["diff"] = d
    except Exception:
        pass
    klass = "bytes_differ" if fmt == SHEXC else "not_isomorphic"
    return violation(oracle, klass, detail, sig)


def _knobsweep(sim, w, spec, ns, scen):
    """The flush threshold is not observable: the same call under every knob
    value returns identical bytes, as a string and as a file."""
    out = []
    kw = _base_kwargs(spec)
    src = dict(spec)
    if src["source"] in ("endpoint", "url"):
        src["source"] = "raw"
    results = {}
    for k in [NEVER_FLUSH] + KNOBS:
        for sink in ("string", "file"):
            if k == NEVER_FLUSH and sink == "file":
                continue
            kk = dict(kw)
            kk["namespaces_dict"] = copy.deepcopy(ns)
            skw, _ = w.source_kwargs(src, "knob")
            kk.update(skw)
            set_knob(k)
            path = sim.path("knob.txt")
            if sink == "string":
                r = call(lambda: new_shaper(kk).shex_graph(string_output=True))
            else:
                before = sim.fs.append_opens
                r = call(lambda: new_shaper(kk).shex_graph(output_file=path))
                if r.kind == "ok":
                    r.text = _read(path)
                if sim.fs.append_opens - before > 1:
                    sim.probes["multi_flush"] += 1
            results[(k, sink)] = r
    ref = results[(NEVER_FLUSH, "string")]
    for (k, sink), r in results.items():
        if (r.kind, r.exc) != (ref.kind, ref.exc):
            out.append(violation("flush_knob", "exception_parity", [k, sink, ref.brief(), r.brief()]))
        elif r.kind == "ok" and r.text != ref.text:
            out.append(violation("flush_knob", "bytes_differ", {"knob": k, "sink": sink, "expected": sha(ref.text),
                                                                  "got": sha(r.text or ""), "len": [len(ref.text), len(r.text or "")]}))
    sim.probes["knobsweep"] += 1
    return out


# ---------------------------------------------------------------------------
# systematic sub-checks
# ---------------------------------------------------------------------------

def _gen_overlap(rng, n_sched):
    tasks = []
    n_tasks = 2 if rng.random() < 0.75 else 3
    have_ep = False
    for i in range(n_tasks):
        kinds = ("node", "str", "int", "iri")
        triples = gen.gen_graph(rng, n_nodes=rng.choice([3, 4, 6, 9]), n_classes=rng.randint(1, 3), n_props=rng.randint(1, 3), kinds=kinds)
        src = rng.choice(["file", "file", "store", "files", "tsv", "raw", "endpoint", "gz", "xz", "zip"])
        if src == "endpoint" and have_ep:
            src = "file"
        have_ep = have_ep or src == "endpoint"
        target = gen.gen_target(rng, triples, allow_shape_map=(src in ("file", "raw") and rng.random() < 0.3))
        o = gen.gen_options(rng, allow_inverse=True, allow_disable_comments=True)
        if rng.random() < 0.4 and "shape_map_raw" not in target:
            o["instances_cap"] = rng.randint(1, 3)
        if rng.random() < 0.15:
            o["namespaces_to_ignore"] = [rng.choice([gen.EX, gen.OTHER])]
        if rng.random() < 0.15:
            o["examples_mode"] = rng.choice(["all", "shape", "cons"])
        calls = [{"format": SHACL if rng.random() < 0.2 else SHEXC, "sink": "file" if rng.random() < 0.5 else "string",
                  "threshold": rng.choice(THRESHOLDS)} for _ in range(1 if rng.random() < 0.7 else 2)]
        for c in calls[1:]:
            c["threshold"] = calls[0]["threshold"]       # a changed threshold on a later call is another scenario family's business
        tasks.append({"source": src, "graph": gen.L(triples), "target": target, "options": o, "calls": calls,
                      "order_seed": rng.randrange(1000)})
    if all(t["source"] == "raw" and all(c["sink"] == "string" for c in t["calls"]) for t in tasks):
        tasks[0]["source"] = "file"          # somebody must meet a seam event
    scheds = [{"mode": "random", "p": 0.0, "seed": 0}]      # first: no switch (counts task 0's seam events)
    for k in range(n_sched):
        r = rng.random()
        if r < 0.4:
            scheds.append({"mode": "nested", "frac": rng.random()})
        else:
            scheds.append({"mode": "random", "p": rng.choice([0.05, 0.2, 0.5, 1.0]), "seed": rng.randrange(10 ** 6),
                           "knob": rng.choice([1, 3, NEVER_FLUSH])})
    return {"overlap": {"tasks": tasks, "schedules": scheds}}



def extra_scenarios(tier, base):
    """(1) default-knob big outputs (file == string across real 5000-line flushes);
    (2) one fault at every position of sampled histories."""
    out = []
    sizes = [700, 1500] if tier == "quick" else [300, 555, 556, 600, 700, 833, 834, 900, 1111, 1112, 1300, 1500, 1667, 1668, 1800, 2200, 2500]
    for n in sizes:
        for src in (("raw",) if tier == "quick" else ("raw", "file")):
            scen = {"config": "fault_free", "big": {"n_classes": n, "per_class": 2, "n_props": 3}, "graph": [],
                    "shapers": [{"source": src, "target": {"all_classes_mode": True},
                                 "options": {"instances_report_mode": "mixed"}, "ns": dict(gen.BASE_NS)}],
                    "share": {}, "knob": 5000, "row_seed": 1,
                    "ops": [{"op": "new", "i": 0},
                            {"op": "shex", "i": 0, "format": SHEXC, "sink": "file", "threshold": 0},
                            {"op": "shex", "i": 0, "format": SHEXC, "sink": "string", "threshold": 0},
                            {"op": "shex", "i": 0, "format": SHEXC, "sink": "file", "threshold": 0}]}
            out.append(("big-%d-%s" % (n, src), scen))
    n_hist = 3 if tier == "quick" else 40
    for h in range(n_hist):
        rng = random.Random("C18-sweep:%s:%s" % (base, h))
        kinds = ("node", "str", "int", "iri")
        triples = gen.gen_graph(rng, n_nodes=rng.choice([3, 4, 5]), n_classes=rng.randint(1, 2), n_props=rng.randint(1, 3), kinds=kinds)
        target = gen.gen_target(rng, triples, allow_shape_map=False)
        options = gen.gen_options(rng)
        which = ["source_eio", "sink_enospc", "endpoint_outage"][h % 3]
        if which == "source_eio" and triples:
            # early in the file: a value whose byte length and character length differ by more than a line
            # (a reader that resumes after a fault must not mix the two up)
            first = [t for t in triples if t[1][1] == gen.RDF_TYPE][:1] or triples[:1]
            triples = [(first[0][0], gen.iri(gen.EX + "label"), gen.lit("\u6771\u4eac\u90fd" * 30, gen.XSD + "string"))] + list(triples)
        src = {"source_eio": "file", "sink_enospc": "raw", "endpoint_outage": "endpoint"}[which]
        n_pos = {"source_eio": 2 * len(triples) + 1, "sink_enospc": 30, "endpoint_outage": 4 * 5 + 4}[which]
        for pos in range(n_pos):
            f = {"kind": which}
            f[{"source_eio": "n", "sink_enospc": "k", "endpoint_outage": "at"}[which]] = pos
            scen = {"config": "faults", "graph": gen.L(triples),
                    "shapers": [{"source": src, "target": target, "options": options, "ns": dict(gen.BASE_NS)}],
                    "share": {}, "knob": rng.choice([1, 3, 7]), "row_seed": h,
                    "ops": [{"op": "new", "i": 0},
                            {"op": "shex", "i": 0, "format": SHEXC, "sink": "file", "threshold": 0, "fault": f},
                            {"op": "shex", "i": 0, "format": SHEXC, "sink": "string", "threshold": 0},
                            {"op": "shex", "i": 0, "format": SHEXC, "sink": "file", "threshold": 0}]}
            out.append(("sweep-%d-%s-%d" % (h, which, pos), scen))
    # object lifetimes: graphs of one size, one selector text, different content, one after the other in one process
    for h in range(2 if tier == "quick" else 24):
        rng = random.Random("C18-lifetimes:%s:%s" % (base, h))
        lives = []
        for j in range(40):
            triples = []
            for n in range(6):
                node = gen.iri(gen.EX + "n%d" % n)
                triples.append((node, gen.iri(gen.RDF_TYPE), gen.iri(gen.EX + rng.choice(["C0", "C1"]))))
                triples.append((node, gen.iri(gen.EX + "p%d" % rng.randrange(2)), gen.lit("v%d" % rng.randrange(3), gen.XSD + "string")))
            lives.append({"doc": gen.to_nt(triples),
                          "target": {"shape_map_raw": "SPARQL'select ?s where {?s a <%sC0>}'@<http://sh.org/S0>\n{FOCUS a <%sC1>}@<http://sh.org/S1>" % (gen.EX, gen.EX)}})
        # ... among them an extraction whose input does not parse (it raises, here and in the pristine process), followed
        # by one whose rdflib-parsed input holds numbers written in two ways
        sm = lives[0]["target"]
        lives.insert(7, {"doc": "<http://ex.org/n0> <http://ex.org/p0> \"unterminated .\n<http://ex.org/n0> a .\n", "target": sm})
        lives.insert(8, {"doc": "@prefix ex: <http://ex.org/> .\n@prefix xsd: <http://www.w3.org/2001/XMLSchema#> .\n"
                                "ex:n0 a ex:C0 ; ex:code \"01\"^^xsd:integer , \"1\"^^xsd:integer .\n"
                                "ex:n1 a ex:C0 ; ex:code \"2\"^^xsd:integer .\n",
                         "input_format": "turtle", "target": {"all_classes_mode": True}})
        out.append(("lifetimes-%d" % h, {"lifetimes": lives}))
        # the same idea against an endpoint: one address, one list of target classes (a new list object every time),
        # another dataset behind the address in every lifetime
        lives = []
        for j in range(30):
            triples = []
            for n in range(6):
                node = gen.iri(gen.EX + "n%d" % n)
                triples.append((node, gen.iri(gen.RDF_TYPE), gen.iri(gen.EX + rng.choice(["C0", "C1"]))))
                triples.append((node, gen.iri(gen.EX + "p%d" % rng.randrange(2)), gen.lit("v%d" % rng.randrange(3), gen.XSD + "string")))
            lives.append({"graph": gen.L(triples), "row_seed": j, "target": {"target_classes": [gen.EX + "C0", gen.EX + "C1"]},
                          "options": ({"disable_endpoint_cache": True} if j % 3 == 0 else {})})
        out.append(("lifetimes-endpoint-%d" % h, {"lifetimes": lives}))
    # overlapping callers: 2-3 tasks x several seeded interleavings at seam events
    for h in range(24 if tier == "quick" else 600):
        rng = random.Random("C18-overlap:%s:%s" % (base, h))
        out.append(("overlap-%d" % h, _gen_overlap(rng, 6 if tier == "quick" else 10)))
    return out


# ---------------------------------------------------------------------------
# shrinking
# ---------------------------------------------------------------------------

def shrink(scen):
    if "overlap" in scen:
        ov = scen["overlap"]
        for j in range(1, len(ov["schedules"])):
            c = copy.deepcopy(scen)
            c["overlap"]["schedules"] = [ov["schedules"][0], ov["schedules"][j]]
            if len(ov["schedules"]) > 2:
                yield c
        if len(ov["tasks"]) > 2:
            for j in range(1, len(ov["tasks"])):
                c = copy.deepcopy(scen)
                del c["overlap"]["tasks"][j]
                yield c
        for i, t in enumerate(ov["tasks"]):
            if len(t["calls"]) > 1:
                c = copy.deepcopy(scen)
                c["overlap"]["tasks"][i]["calls"] = t["calls"][:1]
                yield c
            for key in sorted(t["options"]):
                c = copy.deepcopy(scen)
                del c["overlap"]["tasks"][i]["options"][key]
                yield c
            for j in range(len(t["graph"])):
                c = copy.deepcopy(scen)
                del c["overlap"]["tasks"][i]["graph"][j]
                yield c
        return
    if "lifetimes" in scen:
        for j in range(len(scen["lifetimes"])):
            c = copy.deepcopy(scen)
            del c["lifetimes"][j]
            if c["lifetimes"]:
                yield c
        return

    def extra(s):
        # fewer shapers
        if len(s["shapers"]) == 2:
            c = copy.deepcopy(s)
            c["shapers"] = c["shapers"][:1]
            c["ops"] = [o for o in c["ops"] if o.get("i", 0) == 0]
            c["share"] = {}
            yield c
        for i, sp in enumerate(s["shapers"]):
            for key in sorted(sp["options"]):
                if key == "instances_report_mode":
                    continue
                c = copy.deepcopy(s)
                del c["shapers"][i]["options"][key]
                yield c
            if sp["source"] != "raw":
                c = copy.deepcopy(s)
                c["shapers"][i]["source"] = "raw"
                yield c
            if "shapes_namespace" in sp:
                c = copy.deepcopy(s)
                del c["shapers"][i]["shapes_namespace"]
                yield c
            if sp["ns"] != gen.BASE_NS:
                c = copy.deepcopy(s)
                c["shapers"][i]["ns"] = dict(gen.BASE_NS)
                if c["share"].get("namespaces_dict"):
                    for sp2 in c["shapers"]:
                        sp2["ns"] = dict(gen.BASE_NS)
                yield c
        for j, o in enumerate(s["ops"]):
            if o.get("sink") == "file" and not o.get("fault"):
                c = copy.deepcopy(s)
                c["ops"][j]["sink"] = "string"
                yield c
            if o.get("threshold") not in (None, 0):
                c = copy.deepcopy(s)
                c["ops"][j]["threshold"] = 0
                yield c
            if o.get("fault"):
                for key in ("k", "n", "at", "burst", "after", "fetch"):
                    if o["fault"].get(key):
                        c = copy.deepcopy(s)
                        c["ops"][j]["fault"][key] = o["fault"][key] // 2
                        yield c
        if s.get("knob") != 5000:
            c = copy.deepcopy(s)
            c["knob"] = 5000
            yield c
    for c in generic_shrink(scen, list_keys=("ops", "graph"), dict_keys=(), extra=extra):
        if c["ops"] and c["ops"][0].get("op") == "new":
            yield c
