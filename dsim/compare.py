"""Comparator levels L0 / L1 / L2 / B and the tie rule (DESIGN §3.2)."""
import hashlib

from .shexread import Evidence

ALL_TIED = "ALL"


def sha(text):
    if isinstance(text, str):
        text = text.encode("utf-8", "surrogatepass")
    return hashlib.sha256(text).hexdigest()[:16]


# ---------------------------------------------------------------------------
# tie detection from the class profile (internal attribute, used only to decide
# where to *relax*; if it cannot be read every group counts as tied)
# ---------------------------------------------------------------------------

def profile_groups(shaper):
    """{(label, inv, prop): {(type, card): count}} or None"""
    try:
        from shexer.utils.shapes import build_shapes_name_for_class_uri
        prof = getattr(shaper, "_profile", None)
        if prof is None:
            return None
        ns = getattr(shaper, "_shapes_namespace")
        out = {}
        for cls, body in prof.items():
            label = build_shapes_name_for_class_uri(cls, ns)[1:]
            if not label.startswith("<"):
                label = "<" + label + ">"
            dirs = body if isinstance(body, tuple) else (body,)
            for inv, d in enumerate(dirs):
                for prop, types in d.items():
                    # one entry table per class: two classes may share a shape label (same local name)
                    g = {}
                    out.setdefault((label, bool(inv), "<" + prop + ">"), []).append(g)
                    for t, cards in types.items():
                        for card, n in cards.items():
                            g[(t, str(card))] = n
        return out
    except Exception:
        return None


def tied_groups(groups):
    """Set of (label, inv, pred) whose choice among alternatives can depend on
    arrival order, or ALL_TIED when the profile is unavailable."""
    if groups is None:
        return ALL_TIED
    tied = set()
    for g, tables in groups.items():
      for entries in (tables if isinstance(tables, list) else [tables]):
        by_type = {}
        for (t, card), n in entries.items():
            by_type.setdefault(t, {})[card] = n
        is_tied = False
        shape_types = [t for t in by_type if t.startswith("%")]
        # two alternative shape references with an equal count at some cardinality
        for i in range(len(shape_types)):
            for j in range(i + 1, len(shape_types)):
                a = set(by_type[shape_types[i]].values())
                b = set(by_type[shape_types[j]].values())
                if a & b:
                    is_tied = True
        # two exact cardinalities of one kind with equal counts
        for t, cards in by_type.items():
            exact = [n for c, n in cards.items() if c != "+"]
            if len(exact) != len(set(exact)):
                is_tied = True
        if is_tied:
            tied.add(g)
    return tied


def union_ties(a, b):
    if a == ALL_TIED or b == ALL_TIED:
        return ALL_TIED
    return set(a) | set(b)


def _is_tied(ties, g):
    # direction-insensitive: sheXer's choice (OR) serializer omits the '^' of inverse constraints, so a
    # tie found in the inverse group of the profile shows up in what reads as the direct group
    if "{" in g[2] or "{" in g[0]:
        return True     # a name written with an ambiguous prefix label (two PREFIX lines share it): cannot be matched to the profile
    lab = g[0].split("~")[0]      # same-label shapes are told apart by a '~<class>' suffix the profile does not carry
    return ties == ALL_TIED or (lab, True, g[2]) in ties or (lab, False, g[2]) in ties


# ---------------------------------------------------------------------------

class Diff(object):
    def __init__(self, level, what, detail):
        self.level = level
        self.what = what
        self.detail = detail

    def klass(self):
        return "%s:%s" % (self.level, self.what)

    def to_json(self):
        return {"level": self.level, "what": self.what, "detail": self.detail}

    def __repr__(self):
        return "Diff(%s %s %s)" % (self.level, self.what, self.detail)


def _short(x, n=6):
    x = sorted(x, key=repr)
    return [repr(e) for e in x[:n]]


def compare_texts(a_text, b_text, ties=frozenset(), demand="L2", check_stems=True, contradiction_check=True):
    """Return None if the two ShExC documents agree up to `demand`
    (L0 < L1 < L2), else the most severe Diff.  `ties` relaxes L2 -> L0 +
    no-contradiction inside tied (label, inv, pred) groups."""
    if a_text == b_text:
        return None
    A = a_text if isinstance(a_text, Evidence) else Evidence(a_text)
    B = b_text if isinstance(b_text, Evidence) else Evidence(b_text)
    first = _compare(A, B, ties, demand, check_stems, contradiction_check)
    if first is None or B.n_perms == 1:
        return first
    # same-label shapes that the reader could only number by guessing: a difference counts only if it is there under
    # every numbering of one side
    for perm in range(1, B.n_perms):
        if _compare(A, Evidence(B.text, perm), ties, demand, check_stems, contradiction_check) is None:
            return None
    return first


def _compare(A, B, ties, demand, check_stems, contradiction_check):
    if not (A.doc.ok and B.doc.ok):
        # fallback: multiset of normalised lines; only untied precision is lost
        if A.normalised_lines() != B.normalised_lines() and ties != ALL_TIED and not ties:
            return Diff("L?", "unreadable", _short(set(A.normalised_lines()) ^ set(B.normalised_lines())))
        return None
    # ---- L0
    if set(A.counts) != set(B.counts):
        # a shape all of whose constraints sit in frequency-tied groups can lose them all to the cascade described below
        # (the promoted alternative points to a shape that is removed as empty) and is then removed as empty itself
        def only_tied(lab, E):
            ks = [k for k in E.keys if k[0] == lab]
            return bool(ks) and all(_is_tied(ties, k[:3]) for k in ks)
        untied = {l for l in set(A.counts) ^ set(B.counts) if not only_tied(l, A if l in A.counts else B)}
        if untied:
            return Diff("L0", "labels", _short(untied))
    common = set(A.counts) & set(B.counts)
    if any(A.counts[k] != B.counts[k] for k in common):
        return Diff("L0", "instance_counts",
                    _short({(k, A.counts[k], B.counts[k]) for k in common if A.counts[k] != B.counts[k]}))
    if A.keys != B.keys:
        # inside a frequency-tied group arrival order decides which alternative is promoted; when the promoted one
        # points to a shape that is later removed as empty, the whole constraint goes with it - so a constraint key
        # may be missing on one side, but only in a tied group
        untied = {k for k in (A.keys ^ B.keys) if not _is_tied(ties, k[:3])}
        if untied:
            return Diff("L0", "keys", _short(untied))
    if demand == "L0":
        return None
    # ---- L1
    if check_stems and any(A.stems[k] != B.stems[k] for k in common):
        return Diff("L1", "stems", _short({(k, A.stems[k], B.stems[k]) for k in common if A.stems[k] != B.stems[k]}))
    fa = {f for f in A.facts if not _is_tied(ties, f[:3])}
    fb = {f for f in B.facts if not _is_tied(ties, f[:3])}
    if fa != fb:
        return Diff("L1", "facts", _short(fa ^ fb))
    # tied groups: no contradictory fact (the same fact never appears with two different counts).  Not
    # applicable when exact cardinalities are generalised to '+' on output: distinct facts then share a key.
    if contradiction_check:
        ca = {}
        for f in A.facts:
            ca[f[:5]] = f[5]
        for f in B.facts:
            if f[:5] in ca and ca[f[:5]] != f[5]:
                return Diff("L1", "contradictory_fact", [repr(f), ca[f[:5]]])
    if demand == "L1":
        return None
    # ---- L2
    for g in sorted(set(A.groups) | set(B.groups), key=repr):
        if _is_tied(ties, g):
            continue
        ga = sorted(A.groups.get(g, []), key=repr)
        gb = sorted(B.groups.get(g, []), key=repr)
        if ga != gb:
            return Diff("L2", "chosen_constraint", [repr(g), repr(ga)[:300], repr(gb)[:300]])
    return None


def shacl_digest(text):
    """Canonical digest of a SHACL Turtle document (isomorphism class)."""
    import rdflib
    from rdflib.compare import to_isomorphic
    g = rdflib.Graph()
    g.parse(data=text, format="turtle")
    return "%x" % to_isomorphic(g).graph_digest()
