#!/venv/bin/python
"""Run, for every seeded change, only the check that is expected to catch it (no suite, no demo) and compare the exit
code with the expectation (1, or 0 for the documented misses).  Writes seeded/REGRESSION.txt."""
import json, os, subprocess, sys, time
VERIF = os.path.dirname(os.path.dirname(os.path.abspath(__file__)))
dm = json.load(open(os.path.join(VERIF, "seeded", "detect_map.json")))
only = set(sys.argv[1:])
lines = []
bad = 0
for name in sorted(os.listdir(os.path.join(VERIF, "seeded"))):
    d = os.path.join(VERIF, "seeded", name)
    if not os.path.isdir(d) or (only and name not in only):
        continue
    e = dm.get(name, {})
    chk, tier, args = e.get("check", name.split("-")[0]), e.get("tier", "quick"), e.get("args", [])
    want = e.get("expected_exit", 1)
    t0 = time.time()
    p = subprocess.run(["/venv/bin/python", os.path.join(VERIF, "tools", "try_seed.py"), d, chk, "--tier", tier, "--no-suite"] + args,
                       capture_output=True, text=True, timeout=4 * 3600)
    try:
        r = json.loads(p.stdout)
        got = r.get("check_%s_exit" % chk)
        demo = (r.get("demo_exit_patched"), r.get("demo_exit_unchanged"))
    except Exception:
        got, demo = "tool-error", None
    if e.get("superseded"):
        # the change relied on a defect of /repo that a later 'fix:' commit removed: it no longer applies or no longer manifests
        want, got = "superseded", ("superseded" if (not r.get("patch_applies") or r.get("demo_exit_patched") == 0) else got)
    ok = (got == want)
    bad += 0 if ok else 1
    line = "%-12s check=%s %-8s exit=%s expected=%s demo(with,without)=%s %s %.0fs" % (name, chk, tier, got, want, demo, "ok" if ok else "MISMATCH", time.time() - t0)
    print(line, flush=True)
    lines.append(line)
lines.append("mismatches: %d of %d" % (bad, len(lines)))
print(lines[-1])
if not only:
    open(os.path.join(VERIF, "seeded", "REGRESSION.txt"), "w").write("\n".join(lines) + "\n")
