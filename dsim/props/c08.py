"""C08 — the extracted shapes do not depend on how the graph is delivered.

SimFS + SimHTTP + SimStore materialise one abstract graph as every delivery
channel: raw string, one file, 2-4 files (seeded partition, each file a
self-contained document), gz / xz of each, one zip with 1-4 members (member
order chosen), several zips, URL and list of URLs (simulated HTTP peer), rdflib
Graph object, SimStore - in N-Triples, TSV, Turtle (rdflib and the streaming
reader's dialect), RDF/XML, JSON-LD, N3.  The environment is passive (no
faults): the weak end of this family, differential execution over simulated
I/O worlds.
"""
import copy
import gzip
import lzma
import random
import zipfile

from .. import gen
from ..engine import generic_shrink
from ..world import target_kwargs
from .common import (Sim, SimStore, run_once, violation, finish, compare_results, shape_stats, set_knob, NEVER_FLUSH,
                     components)

ID = "C08"
LEVEL = "exploration"
HAS_CLOCK = False
COUNTS = {"quick": 1200, "thorough": 120000}
WALL = {"quick": 600, "thorough": 6 * 3600}
SHRINK_WALL = {"quick": 120, "thorough": 900}
SELFTEST_N = {"quick": 24, "thorough": 128}
CHUNK = 6
RULE = ("Scenario = seeded graph (IRI instances, plain/typed/language-tagged literals; blank-node instances only with label-stable "
        "channels) x target x options x 10-16 sampled channels = (format in {nt,tsv,turtle,turtle_iter,xml,json-ld,n3}) x (transport in "
        "{raw, file, 2-4 files, url, list of urls, rdflib.Graph, SimStore}) x (codec in {none,gz,xz,zip with chosen member order, "
        "several zips}) with a seeded partition of the statements. Each channel is compared with the raw-N-Triples reference. "
        "Non-trivial = reference has at least one shape AND the channel differs from it in format, split, codec or transport; "
        "distinct = distinct (scenario, channel) pairs.")
COMPONENTS = components(["urllib urlopen under rdflib -> SimHTTP (serves the documents, counts fetches)",
                         "rdflib_graph= SimStore for the store channel", "open() in file_line_reader -> SimFS wrapper over real temp files"])
ASSUMPTIONS = [
    "reference = sheXer itself on the canonical raw N-Triples string; a defect common to every channel is invisible",
    "documents in Turtle / RDF-XML / JSON-LD are written by the harness' own serialisers (checked isomorphic to the abstract graph by rdflib when the module was built)",
    "channels are compared at L1 everywhere and L2 outside frequency-tied groups (delivery order differs between channels)",
    "no read faults here (they live in C18); numeric untyped literals are excluded as the quantifier says",
]

FORMATS = ["nt", "tsv_spo", "turtle", "turtle_iter", "xml", "json-ld", "n3"]
LABEL_STABLE = ("nt", "tsv_spo", "turtle_iter")
RDFLIB_FORMATS = ("turtle", "xml", "json-ld", "n3", "nt")
EXT = {"nt": "nt", "tsv_spo": "tsv", "turtle": "ttl", "turtle_iter": "ttl", "xml": "rdf", "json-ld": "jsonld", "n3": "n3"}
CTYPE = {"nt": "application/n-triples", "turtle": "text/turtle", "xml": "application/rdf+xml", "json-ld": "application/ld+json",
         "n3": "text/n3"}


def gen_channel(rng, bnodes):
    fmts = list(LABEL_STABLE) if bnodes else FORMATS
    transports = ["raw", "file", "files", "files", "gz", "xz", "zip", "zip", "zips", "rdflib_graph", "store", "dataset_graph"]
    if not bnodes:
        transports += ["url", "urls"]
    tr = rng.choice(transports)
    ch = {"transport": tr}
    if tr in ("rdflib_graph", "store", "dataset_graph"):
        ch["format"] = None
        ch["order_seed"] = rng.randrange(1 << 20)
        return ch
    if tr in ("url", "urls"):
        ch["format"] = rng.choice(["nt", "turtle", "xml", "json-ld", "n3"])
    else:
        ch["format"] = rng.choice(fmts)
    ch["parts"] = 1
    if tr in ("files", "urls", "zips"):
        ch["parts"] = rng.randint(2, 4)
    if tr == "zip":
        ch["parts"] = rng.randint(1, 4)
    if tr in ("gz", "xz") and rng.random() < 0.5:
        ch["parts"] = rng.randint(2, 3)
    ch["split_seed"] = rng.randrange(1 << 20)
    ch["turtle_grouped"] = rng.random() < 0.7
    ch["rotate_labels"] = rng.random() < 0.5
    ch["use_base"] = rng.random() < 0.3
    ch["full_nonhttp"] = rng.random() < 0.5      # urn:/mailto: IRIs written as <...> instead of prefixed names
    ch["rebind"] = rng.random() < 0.3            # prefix labels re-bound in the middle of a document
    ch["magic_names"] = rng.random() < 0.3       # file names containing '[' and ']'
    ch["comments"] = rng.choice([0, 0, 1, 3])    # comment and blank lines between statements
    ch["explicit_string_dt"] = rng.random() < 0.3    # "abc"^^xsd:string instead of "abc": the same RDF term
    if tr == "files" and rng.random() < 0.3:
        ch["special_member"] = rng.randrange(ch["parts"])
    if tr == "files" and rng.random() < 0.25:
        ch["path_objects"] = rng.choice(["all", "some"])
    if tr in ("gz", "xz") and rng.random() < 0.35:
        ch["members"] = rng.randint(2, 3)
    if tr == "zip" and rng.random() < 0.5:
        # members stored under folders of the archive (zip -r / shutil.make_archive layout), no directory entries
        ch["member_dirs"] = [rng.choice(["", "data/", "data/more/", "x/"]) for _ in range(4)]
        ch["dir_entries"] = rng.random() < 0.5
    return ch


def generate(rng, tier, index):
    bnodes = rng.random() < 0.25
    schema = rng.random() < 0.3
    n_nodes = rng.choice([3, 4, 6, 8]) if tier == "quick" else rng.choice([3, 4, 6, 8, 12, 20])
    kinds = ("node", "str", "int", "lang", "date", "iri", "iri2", "cdt")
    if schema:
        triples = gen.gen_schema_graph(rng, n_nodes=n_nodes, n_classes=rng.randint(1, 3), n_props=rng.randint(1, 4), bnodes=bnodes)
    else:
        triples = gen.gen_graph(rng, n_nodes=n_nodes, n_classes=rng.randint(1, 3), n_props=rng.randint(1, 5), bnodes=bnodes, kinds=kinds,
                                prop_namespaces=rng.choice([(gen.EX,), (gen.EX, gen.OTHER), (gen.EX, "urn:ex:vocab:")]), clash_props=0.3)
    tp = gen.CUSTOM_TYPE if rng.random() < 0.12 else gen.RDF_TYPE
    triples = gen.retype(gen.ensure_class(triples), tp)
    target = gen.gen_target(rng, triples, allow_shape_map=False, type_prop=tp)
    options = gen.gen_options(rng, allow_inverse=True)
    if tp != gen.RDF_TYPE:
        options["instantiation_property"] = tp
    if rng.random() < 0.15:
        options["detect_minimal_iri"] = True
    n_ch = rng.randint(10, 16) if tier == "thorough" else rng.randint(8, 12)
    channels = [gen_channel(rng, bnodes) for _ in range(n_ch)]
    return {"short_read_max": rng.choice([0, 0, 7, 64, 4096]), "graph": gen.L(triples), "bnodes": bnodes, "target": target, "options": options, "ns": gen.gen_namespaces(rng),
            "channels": channels}


def _doc(triples, fmt, grouped=True, salt=0, base=None, full_nonhttp=False, rebind=False, comments=0):
    if fmt == "nt":
        return gen.to_nt(triples, comments=comments)
    if fmt == "tsv_spo":
        return gen.to_tsv(triples)
    if fmt in ("turtle", "n3"):
        return gen.to_turtle(triples, group=grouped, label_salt=salt, base=base, full_nonhttp=full_nonhttp,
                             rebind=rebind, comments=bool(comments))
    if fmt == "turtle_iter":
        return gen.to_turtle(triples, group=grouped, dialect="iter", label_salt=salt, base=base, full_nonhttp=full_nonhttp,
                             rebind=rebind, comments=bool(comments))
    if fmt == "xml":
        return gen.to_rdfxml(triples)
    if fmt == "json-ld":
        return gen.to_jsonld(triples)
    raise ValueError(fmt)


def _partition(triples, parts, seed):
    rng = random.Random(seed)
    if parts <= 1:
        return [list(triples)]
    buckets = [[] for _ in range(parts)]
    for t in triples:
        buckets[rng.randrange(parts)].append(t)
    buckets = [b for b in buckets if b] or [list(triples)]
    rng.shuffle(buckets)
    return buckets


def build_channel(sim, triples, ch, tag):
    """materialise the channel in the simulated world; returns Shaper kwargs"""
    tr = ch["transport"]
    fmt = ch["format"]
    if tr == "rdflib_graph":
        return {"rdflib_graph": gen.to_rdflib_graph(triples)}
    if tr == "dataset_graph":
        # one named graph of a Dataset: it shares its store with a sibling graph whose statements are not part of it
        import rdflib
        ds = rdflib.Dataset()
        g = ds.graph(rdflib.URIRef("urn:graph:wanted"))
        for s, p, o in triples:
            g.add((gen.to_rdflib_term(s), gen.to_rdflib_term(p), gen.to_rdflib_term(o)))
        other = ds.graph(rdflib.URIRef("urn:graph:other"))
        cls = gen.classes_of(triples, scen_type_prop(triples))
        other.add((rdflib.URIRef(gen.EX + "intruder"), rdflib.URIRef(scen_type_prop(triples)), rdflib.URIRef(cls[0] if cls else gen.EX + "C0")))
        other.add((rdflib.URIRef(gen.EX + "intruder"), rdflib.URIRef(gen.EX + "p0"), rdflib.Literal("intruding value")))
        return {"rdflib_graph": g}
    if tr == "store":
        return {"rdflib_graph": gen.to_rdflib_graph(triples, cls=SimStore).configure(sim, ch["order_seed"], independent=True)}
    # every document of a multi-part delivery is self-contained: its own prefix labels (the same label may name
    # different namespaces in different parts) and, for some parts, its own @base
    parts = _partition(triples, ch.get("parts", 1), ch.get("split_seed", 0))
    based = [False] * len(parts)
    if ch.get("use_base"):
        # documents that declare @base come first, documents with non-http IRIs (which must stay base-free, see
        # gen.to_turtle) after them: a reader that carries header state from one document to the next meets it here
        def dirty(b):
            return any(t[0] == "i" and not t[1].startswith("http") for tr in b for t in tr)
        parts = [b for b in parts if not dirty(b)] + [b for b in parts if dirty(b)]
        based = [not dirty(b) for b in parts]
    with gen.explicit_string_dt(ch.get("explicit_string_dt", False)):
        docs = [_doc(b, fmt, ch.get("turtle_grouped", True), salt=(i if ch.get("rotate_labels") else 0),
                     base=(gen.EX if based[i] else None), full_nonhttp=ch.get("full_nonhttp", False),
                     rebind=ch.get("rebind", False), comments=ch.get("comments", 0))
                for i, b in enumerate(parts)]
    ext = EXT[fmt]
    kw = {"input_format": fmt}
    if tr == "raw":
        kw["raw_graph"] = docs[0]
    elif tr == "file":
        kw["graph_file_input"] = sim.write_file("%s.%s" % (tag, ext), docs[0])
    elif tr == "files":
        # legal file names that a glob expansion would not match literally
        # (and, for the line-reader formats, one member that is a special file: size 0 for stat(), content for read())
        kw["graph_list_of_files_input"] = [
            (sim.write_special_file if (ch.get("special_member") == i and fmt in ("nt", "tsv_spo", "turtle_iter")) else sim.write_file)(
                ("%s_part[%d].%s" if ch.get("magic_names") else "%s_%d.%s") % (tag, i, ext), d)
            for i, d in enumerate(docs)]
        if ch.get("path_objects"):
            import pathlib      # os.PathLike entries, alone or next to plain strings
            kw["graph_list_of_files_input"] = [pathlib.Path(p) if (j % 2 == 0 or ch["path_objects"] == "all") else p
                                               for j, p in enumerate(kw["graph_list_of_files_input"])]
    elif tr in ("gz", "xz"):
        paths = []
        for i, d in enumerate(docs):
            p = sim.path("%s_%d.%s.%s" % (tag, i, ext, tr))
            data = d.encode("utf-8")
            if ch.get("members", 1) > 1 and fmt in ("nt", "tsv_spo"):
                # one file made of several concatenated gzip / xz members (cat a.gz b.gz, pigz, bgzip layouts),
                # cut at line ends
                lines = data.splitlines(True)
                k = max(1, len(lines) // ch["members"])
                chunks = [b"".join(lines[j:j + k]) for j in range(0, len(lines), k)]
                with open(p, "wb") as f:
                    for c in chunks:
                        f.write(gzip.compress(c) if tr == "gz" else lzma.compress(c))
            elif ch.get("members", 1) > 1 and tr == "gz":
                # whole-document formats: the members are arbitrary byte slices of the document
                k = max(1, len(data) // ch["members"])
                with open(p, "wb") as f:
                    for j in range(0, len(data), k):
                        f.write(gzip.compress(data[j:j + k]))
            else:
                with (gzip.open(p, "wb") if tr == "gz" else lzma.open(p, "wb")) as f:
                    f.write(data)
            paths.append(p)
        kw["compression_mode"] = tr
        if len(paths) == 1:
            kw["graph_file_input"] = paths[0]
        else:
            kw["graph_list_of_files_input"] = paths
    elif tr == "zip":
        p = sim.path("%s.zip" % tag)
        with zipfile.ZipFile(p, "w") as z:
            if ch.get("dir_entries") and fmt in ("nt", "tsv_spo", "turtle_iter"):
                z.writestr("data/", "")         # folder entries as `zip -r` writes them (empty members: no statements)
            for i, d in enumerate(docs):
                z.writestr((ch.get("member_dirs") or [""] * 4)[i % 4] + "m%d.%s" % (i, ext), d)
            if ch.get("dir_entries") and fmt in ("nt", "tsv_spo", "turtle_iter"):
                z.writestr("__MACOSX/", "")
        kw["compression_mode"] = "zip"
        kw["graph_file_input"] = p
    elif tr == "zips":
        paths = []
        for i, d in enumerate(docs):
            p = sim.path("%s_%d.zip" % (tag, i))
            with zipfile.ZipFile(p, "w") as z:
                z.writestr("only.%s" % ext, d)
            paths.append(p)
        kw["compression_mode"] = "zip"
        kw["graph_list_of_files_input"] = paths
    elif tr == "url":
        url = "http://sim.test/%s.%s" % (tag, ext)
        sim.http.serve(url, docs[0], CTYPE[fmt])
        kw["url_graph_input"] = url
    elif tr == "urls":
        urls = []
        for i, d in enumerate(docs):
            url = "http://sim.test/%s_%d.%s" % (tag, i, ext)
            sim.http.serve(url, d, CTYPE[fmt])
            urls.append(url)
        kw["list_of_url_input"] = urls
    else:
        raise ValueError(tr)
    return kw


def scen_type_prop(triples):
    return gen.CUSTOM_TYPE if any(t[1][1] == gen.CUSTOM_TYPE for t in triples) else gen.RDF_TYPE


def _kw(scen, **extra):
    kw = {}
    kw.update(target_kwargs(scen["target"]))
    kw.update(copy.deepcopy(scen["options"]))
    kw["namespaces_dict"] = copy.deepcopy(scen["ns"])
    kw.update(extra)
    return kw


def execute(scen, scratch):
    sim = Sim(scratch)
    set_knob(NEVER_FLUSH)
    violations = []
    verdicts = []
    runs = 0
    triples = [gen.T(t) for t in scen["graph"]]
    has_lang = any(t[2][0] == "l" and t[2][3] for t in triples)
    nontrivial = []
    sim.fs.short_read_max = scen.get("short_read_max", 0)
    with sim:
        ref = run_once(_kw(scen, raw_graph=gen.to_nt(triples)))
        runs += 1
        n_shapes = shape_stats(ref.text)[0] if ref.kind == "ok" else 0
        for ci, ch in enumerate(scen["channels"]):
            fetch0 = sim.http.fetches
            kw = build_channel(sim, triples, ch, "c%d" % ci)
            out = run_once(_kw(scen, **kw))
            runs += 1
            name = "%s/%s/%s" % (ch["transport"], ch["format"], ch.get("parts", 1))
            verdicts.append((name, out.brief()))
            sim.probes["transport_" + ch["transport"]] += 1
            if ch["format"]:
                sim.probes["format_" + ch["format"]] += 1
            if ch["transport"] in ("url", "urls"):
                sim.probes["url_fetches"] += sim.http.fetches - fetch0
                if sim.http.fetches - fetch0 == 2 * ch.get("parts", 1):
                    sim.probes["url_read_exactly_once_per_pass"] += 1
            vs = compare_results(ref, out, oracle="channel_equivalence", options=scen["options"])
            for v in vs:
                v["detail"] = {"channel": ch, "diff": v["detail"]}
                # predicted wrong behaviour of the known finding: the streaming Turtle reader rejects language tags
                if (v["klass"] == "exception_parity" and ch["format"] == "turtle_iter" and has_lang
                        and ref.kind == "ok" and out.kind == "exc" and out.exc == "RuntimeError"
                        and "Unrecognized literal type" in (out.msg or "")):
                    v["sig"] = "turtle_iter_rejects_language_tags"
                v["klass"] = v["klass"] + ":" + (ch["format"] or ch["transport"])
            violations += vs
            if n_shapes > 0 and not (ch["transport"] == "raw" and ch["format"] == "nt"):
                nontrivial.append(ci)
    seen = set()
    uniq = []
    for v in violations:
        k = (v["oracle"], v["klass"], v.get("sig"))
        if k not in seen:
            seen.add(k)
            uniq.append(v)
    out = finish(sim, uniq, verdicts, len(nontrivial) > 0, runs, [ref.text] if ref.kind == "ok" else [])
    out["extra"] = {"nontrivial_channels": len(nontrivial)}
    return out


def extra_scenarios(tier, base):
    """layout sweep: documents of ~130 KB in which a line ends exactly at 4096, 8192, ... 131072 bytes, delivered
    through every line-oriented transport (a chunked / buffered reader must not lose or glue statements there)"""
    out = []
    n = 1 if tier == "quick" else 12
    for k in range(n):
        for fmt in ("nt", "tsv_spo"):
            rng = random.Random("C08-layout:%s:%s:%s" % (base, k, fmt))
            bounds = (4096, 8192, 16384, 32768, 65536, 131072, 262144, 524288, 1048576) if (fmt == "nt" or tier == "thorough") \
                else (4096, 8192, 16384, 32768, 65536, 131072)
            triples = gen.gen_aligned_graph(rng, fmt=fmt, boundaries=bounds, n_classes=rng.randint(2, 6))
            channels = [{"transport": tr, "format": fmt, "parts": 1, "split_seed": 0, "turtle_grouped": False}
                        for tr in ("file", "gz", "xz", "zip", "zips", "raw")]
            if fmt == "nt":
                # thousands of comment and blank lines (valid N-Triples) between the statements
                ch2 = [dict(c, comments=1) for c in channels]
                small = triples[:1500]
                out.append(("comments-nt-%d" % k, {
                    "graph": gen.L(small), "ordered": True, "bnodes": False, "target": {"all_classes_mode": True},
                    "options": {"instances_report_mode": "mixed"}, "ns": dict(gen.BASE_NS), "channels": ch2}))
            out.append(("layout-%s-%d" % (fmt, k), {
                "graph": gen.L(triples), "ordered": True, "bnodes": False, "target": {"all_classes_mode": True},
                "options": {"instances_report_mode": "mixed"}, "ns": dict(gen.BASE_NS), "channels": channels}))
            # the same boundaries, now inside a multi-byte character of a subject IRI
            rng2 = random.Random("C08-straddle:%s:%s:%s" % (base, k, fmt))
            sb = bounds[:7] if tier == "quick" else bounds
            triples2 = gen.gen_aligned_graph(rng2, fmt=fmt, boundaries=sb, n_classes=rng2.randint(2, 6), straddle=True)
            out.append(("straddle-%s-%d" % (fmt, k), {
                "graph": gen.L(triples2), "ordered": True, "bnodes": False, "target": {"all_classes_mode": True},
                "options": {"instances_report_mode": "mixed"}, "ns": dict(gen.BASE_NS), "channels": channels}))
    return out


def shrink(scen):
    if len(scen["channels"]) > 1:
        for i in range(len(scen["channels"])):
            c = copy.deepcopy(scen)
            c["channels"] = [c["channels"][i]]
            yield c
        return

    def extra(s):
        ch = s["channels"][0]
        if ch.get("parts", 1) > 1:
            c = copy.deepcopy(s)
            c["channels"][0]["parts"] = ch["parts"] - 1
            yield c
        if s["ns"] != gen.BASE_NS:
            c = copy.deepcopy(s)
            c["ns"] = dict(gen.BASE_NS)
            yield c
        if ch.get("turtle_grouped"):
            c = copy.deepcopy(s)
            c["channels"][0]["turtle_grouped"] = False
            yield c
    for c in generic_shrink(scen, list_keys=("graph",), dict_keys=("options",), extra=extra):
        yield c
