"""C16 — restriction options equal restricting the input.

Two-source world: the instance pass and the feature pass can be given different
streams.  Cap half (the simulation target): the source delivers pass 1 in a
scheduler-chosen order; with target_classes the tracker abandons the stream once
every class is full (pass_cut_off probe); pass 2 may be delivered in an
independent order (SimStore).  Reference: fresh model without cap whose
instances come from a file holding each class's first min(k, |class|) typing
triples in the delivered pass-1 order.  Ignore half: reference = instances from
the full document, features from the document with the ignored predicates
deleted (passive filter; no simulation content of its own).
"""
import copy
import random

from .. import gen
from ..engine import generic_shrink
from ..compare import compare_texts, tied_groups, union_ties
from ..shexread import Evidence
from ..world import target_kwargs
from .common import (Sim, SimStore, run_once, violation, finish, shape_stats, set_knob, NEVER_FLUSH, components,
                     _contradiction_check_applies, sha)

ID = "C16"
LEVEL = "exploration"
HAS_CLOCK = False
COUNTS = {"quick": 8000, "thorough": 600000}
WALL = {"quick": 600, "thorough": 6 * 3600}
SHRINK_WALL = {"quick": 120, "thorough": 900}
SELFTEST_N = {"quick": 32, "thorough": 256}
CHUNK = 8
RULE = ("Scenario = seeded graph (incl. blank nodes, predicates in namespaces that prefix one another and one level deeper) x "
        "half in {cap, ignore}. cap: k in 1..max class size+1, target_classes (early stop) or all_classes_mode, pass-1 order "
        "chosen by the scheduler through a file / raw string / SimStore (pass-2 order independent for SimStore). ignore: random "
        "subsets of {ex:, ex:ns/, ex:ns/deep/, other#, rdf:}. Non-trivial = at least one shape AND (some class larger than the cap "
        "or some predicate actually ignored); distinct = distinct scenario documents.")
COMPONENTS = components(["rdflib_graph= SimStore for the store channel; open() in file_line_reader -> SimFS wrapper (counts lines delivered, detects abandoned passes)"])
ASSUMPTIONS = [
    "reference = sheXer itself fed the restriction through instances_file_input / a filtered document (two-source world); a defect shared by the option path and the two-file path is invisible",
    "the direct-child rule of the ignore half is re-stated in three lines of the harness (prefix match, no '/' or '#' in the remainder)",
    "store-delivered scenarios are compared up to frequency ties (the reference reads files); same-reader scenarios at full L2",
]

URN_NS = "urn:ex:vocab:"
HASH_NS = "http://ex.org/onto#"           # predicates onto#p<i> ...
HASH_DEEP_NS = "http://ex.org/onto#addr/"  # ... and onto#addr/p<i>: a '/' after the '#'
PLUS_NS = "http://ex.org/voc+ext/"          # characters that mean something in a pattern language ...
PLUS_TWIN_NS = "http://ex.org/vocext/"      # ... and the namespace such a pattern would also match
NS_POOL = [gen.EX, gen.EX_DEEP, gen.EX_DEEPER, gen.OTHER, URN_NS, HASH_NS, HASH_DEEP_NS, PLUS_NS, PLUS_TWIN_NS]


def generate(rng, tier, index):
    half = "cap" if rng.random() < 0.6 else "ignore"
    n_nodes = rng.choice([3, 4, 6, 8, 10]) if tier == "quick" else rng.choice([3, 4, 6, 8, 10, 16, 24])
    triples = gen.gen_graph(rng, n_nodes=n_nodes, n_classes=rng.randint(1, 3), n_props=rng.randint(2, 6),
                            bnodes=rng.random() < 0.25, prop_namespaces=tuple(rng.sample(NS_POOL, rng.randint(1, 4))),
                            density=rng.choice([0.5, 0.8]), kinds=("node", "str", "int", "lang", "date", "iri", "iri2", "cdt"))
    if rng.random() < 0.15:
        # a predicate whose local name holds a %-escaped separator: still a direct child of its namespace
        preds = sorted({t[1][1] for t in triples if t[1][1] != gen.RDF_TYPE})
        if preds:
            old = rng.choice(preds)
            cut = max(old.rfind("/"), old.rfind("#")) + 1
            new = old[:cut] + rng.choice(["a%2F", "a%23", "deep%2F"]) + old[cut:]
            triples = [(s, gen.iri(new) if p[1] == old else p, o) for (s, p, o) in triples]
    tp = gen.CUSTOM_TYPE if rng.random() < 0.12 else gen.RDF_TYPE
    triples = gen.retype(gen.ensure_class(triples), tp)
    classes = gen.classes_of(triples, tp)
    options = gen.gen_options(rng, allow_inverse=True)
    if tp != gen.RDF_TYPE:
        options["instantiation_property"] = tp
    n = len(triples)
    p1 = list(range(n))
    rng.shuffle(p1)
    scen = {"half": half, "graph": gen.L(triples), "options": options, "ns": gen.gen_namespaces(rng)}
    if half == "cap":
        sizes = [len(gen.instances_of(triples, c, tp)) for c in classes]
        scen["cap"] = rng.randint(1, max(sizes) + 1)
        if rng.random() < 0.55:
            scen["target"] = {"target_classes": rng.sample(classes, rng.randint(1, len(classes)))}
        else:
            scen["target"] = {"all_classes_mode": True}
        scen["channel"] = rng.choice(["file", "file", "raw", "store", "store", "tsv_file", "files", "files", "zip"])
        scen["parts"] = rng.randint(2, 4)
        p2 = list(p1)
        if scen["channel"] == "store" and rng.random() < 0.8:
            p2 = list(range(n))
            rng.shuffle(p2)
        scen["orders"] = [p1, p2]
    else:
        # also: the rdf: namespace, and namespaces written without their trailing '/' (they then match nothing directly)
        pool = NS_POOL + [gen.RDF_NS, gen.EX[:-1], gen.EX_DEEP[:-1]]
        scen["ignore"] = rng.sample(pool, rng.randint(1, 3))
        scen["target"] = gen.gen_target(rng, triples, allow_shape_map=False, type_prop=tp)
        scen["channel"] = rng.choice(["file", "raw", "tsv_file", "tsv_raw", "ttl_iter_file"])
        scen["orders"] = [p1, list(p1)]
    return scen


def _kw(scen, **extra):
    kw = {}
    kw.update(target_kwargs(scen["target"]))
    kw.update(copy.deepcopy(scen["options"]))
    kw["namespaces_dict"] = copy.deepcopy(scen["ns"])
    kw.update(extra)
    return kw


def direct_child(pred, namespaces):
    return any(pred.startswith(ns) and "/" not in pred[len(ns):] and "#" not in pred[len(ns):] for ns in namespaces)


def _label_of(cls, shapes_ns="http://weso.es/shapes/"):
    last = cls
    if "#" in last and last[-1] != "#":
        last = last[last.rfind("#") + 1:]
    if "/" in last:
        last = last[last.rfind("/") + 1:] if last[-1] != "/" else last[last[:-1].rfind("/") + 1:]
    return "<%s%s>" % (shapes_ns, last)


def _diff(scen, ref, out, oracle, relax):
    if ref.kind == "exc" or out.kind == "exc":
        if (ref.kind, ref.exc) != (out.kind, out.exc):
            return [violation(oracle, "exception_parity", [ref.brief(), out.brief(), (out.msg or ref.msg or "")[:160]])]
        return []
    if ref.text == out.text:
        return []
    ties = union_ties(tied_groups(ref.groups), tied_groups(out.groups)) if relax else frozenset()
    d = compare_texts(ref.text, out.text, ties=ties, demand="L2",
                      contradiction_check=_contradiction_check_applies(scen["options"]))
    if d is None:
        return []
    return [violation(oracle, d.klass(), d.detail)]


def execute(scen, scratch):
    sim = Sim(scratch)
    set_knob(NEVER_FLUSH)
    violations = []
    verdicts = []
    texts = []
    runs = 0
    triples = [gen.T(t) for t in scen["graph"]]
    tp = scen["options"].get("instantiation_property", gen.RDF_TYPE)
    p1, p2 = scen["orders"]
    s1 = [triples[i] for i in p1]
    s2 = [triples[i] for i in p2]
    nontrivial_dim = False
    with sim:
        if scen["half"] == "cap":
            k = scen["cap"]
            ch = scen["channel"]
            pos = None
            if ch == "file":
                sut_kw = {"graph_file_input": sim.write_file("sut.nt", gen.to_nt(s1))}
            elif ch == "tsv_file":
                sut_kw = {"graph_file_input": sim.write_file("sut.tsv", gen.to_tsv(s1)), "input_format": "tsv_spo"}
            elif ch == "raw":
                sut_kw = {"raw_graph": gen.to_nt(s1)}
            elif ch in ("files", "zip"):
                # the delivered pass-1 order is the concatenation of the files / members in the order given
                n_parts = max(1, min(scen.get("parts", 2), len(s1)))
                size = -(-len(s1) // n_parts)
                parts = [s1[i:i + size] for i in range(0, len(s1), size)]
                if ch == "files":
                    sut_kw = {"graph_list_of_files_input": [sim.write_file("sut_%d.nt" % i, gen.to_nt(p)) for i, p in enumerate(parts)]}
                else:
                    import zipfile
                    zp = sim.path("sut.zip")
                    with zipfile.ZipFile(zp, "w") as z:
                        for i, p in enumerate(parts):
                            # archive order is what counts; the names sort the other way round
                            z.writestr("part%d.nt" % (len(parts) - i), gen.to_nt(p))
                    sut_kw = {"graph_file_input": zp, "compression_mode": "zip"}
            else:
                base = sorted(range(len(triples)), key=lambda i: tuple(x.n3() for x in (gen.to_rdflib_term(triples[i][0]),
                                                                                      gen.to_rdflib_term(triples[i][1]),
                                                                                      gen.to_rdflib_term(triples[i][2]))))
                # SimStore's explicit orders index into its n3-sorted base order
                pos = {ti: bi for bi, ti in enumerate(base)}
                st = gen.to_rdflib_graph(triples, cls=SimStore).configure(
                    sim, 0, explicit_orders=[[pos[i] for i in p1], [pos[i] for i in p2]])
                sut_kw = {"rdflib_graph": st}
            out = run_once(_kw(scen, instances_cap=k, **sut_kw))
            runs += 1
            # reference: first min(k,|class|) typing triples per relevant class in delivered pass-1 order
            relevant = set(scen["target"]["target_classes"]) if "target_classes" in scen["target"] else None
            cnt = {}
            keep = []
            for t in s1:
                if t[1][1] == tp and t[2][0] == "i":
                    c = t[2][1]
                    if relevant is not None and c not in relevant:
                        continue
                    if cnt.get(c, 0) < k:
                        cnt[c] = cnt.get(c, 0) + 1
                        keep.append(t)
            f_full = sim.write_file("ref_full.nt", gen.to_nt(s2))
            f_inst = sim.write_file("ref_inst.nt", gen.to_nt(keep))
            ref = run_once(_kw(scen, graph_file_input=f_full, instances_file_input=f_inst))
            runs += 1
            verdicts += [("cap", out.brief(), ref.brief())]
            violations += _diff(scen, ref, out, "cap_equals_restricted_input", relax=(ch in ("store", "tsv_file")))
            sizes = {c: len(gen.instances_of(triples, c, tp)) for c in gen.classes_of(triples, tp)}
            if any(v > k for c, v in sizes.items() if relevant is None or c in relevant):
                nontrivial_dim = True
                sim.probes["some_class_larger_than_cap"] += 1
            # reported instance counts are exactly min(k, |class|)
            if out.kind == "ok" and scen["options"].get("instances_report_mode") == "mixed" and not scen["options"].get("disable_comments"):
                ev = Evidence(out.text)
                for c, size in sizes.items():
                    if relevant is not None and c not in relevant:
                        continue
                    lab = _label_of(c)
                    if lab in ev.counts and ev.counts[lab] is not None and ev.counts[lab] != min(k, size):
                        violations.append(violation("cap_counts", "instance_count_not_min_k_size", [c, ev.counts[lab], k, size]))
            # a cap not smaller than every class changes nothing
            if all(v <= k for v in sizes.values()):
                nocap = run_once(_kw(scen, **(sut_kw if ch != "store" else
                                               {"rdflib_graph": gen.to_rdflib_graph(triples, cls=SimStore).configure(
                                                   sim, 0, explicit_orders=[[pos[i] for i in p1], [pos[i] for i in p2]])})))
                runs += 1
                sim.probes["cap_not_smaller_than_any_class"] += 1
                if (nocap.kind, nocap.exc, nocap.text) != (out.kind, out.exc, out.text):
                    violations.append(violation("cap_large_is_noop", "differs_from_uncapped", [nocap.brief(), out.brief()]))
            if out.kind == "ok":
                texts.append(out.text)
        else:
            ign = scen["ignore"]
            ch = scen["channel"]
            doc = gen.to_nt(s1)
            if ch == "file":
                sut_kw = {"graph_file_input": sim.write_file("sut.nt", doc)}
            elif ch == "tsv_file":
                sut_kw = {"graph_file_input": sim.write_file("sut.tsv", gen.to_tsv(s1)), "input_format": "tsv_spo"}
            elif ch == "tsv_raw":
                sut_kw = {"raw_graph": gen.to_tsv(s1), "input_format": "tsv_spo"}
            elif ch == "ttl_iter_file":
                sut_kw = {"graph_file_input": sim.write_file("sut.ttl", gen.to_turtle(s1, group=False, dialect="iter", stable_labels=True)),
                          "input_format": "turtle_iter"}
            else:
                sut_kw = {"raw_graph": doc}
            out = run_once(_kw(scen, namespaces_to_ignore=list(ign), **sut_kw))
            runs += 1
            kept = [t for t in s1 if not direct_child(t[1][1], ign)]
            if len(kept) < len(s1):
                nontrivial_dim = True
                sim.probes["some_predicate_ignored"] += 1
            if any(t[1][1].startswith(ns) and not direct_child(t[1][1], [ns]) for t in s1 for ns in ign):
                sim.probes["deeper_level_predicate_kept"] += 1
            f_full = sim.write_file("ref_full.nt", doc)
            f_filt = sim.write_file("ref_filt.nt", gen.to_nt(kept))
            ref = run_once(_kw(scen, graph_file_input=f_filt, instances_file_input=f_full))
            runs += 1
            verdicts += [("ignore", out.brief(), ref.brief())]
            violations += _diff(scen, ref, out, "ignore_equals_filtered_input", relax=(ch in ("tsv_file", "tsv_raw", "ttl_iter_file")))
            if out.kind == "ok":
                texts.append(out.text)
    n_shapes = shape_stats(texts[0])[0] if texts else 0
    return finish(sim, violations, verdicts, n_shapes > 0 and nontrivial_dim, runs, texts)


def extra_scenarios(tier, base):
    """caps far from the small numbers of the seeded scenarios: two classes of 320 instances, caps around 256 and beyond"""
    out = []
    triples = []
    for i in range(640):
        n = gen.iri(gen.EX + "n%d" % i)
        triples.append((n, gen.iri(gen.RDF_TYPE), gen.iri(gen.EX + ("A" if i % 2 == 0 else "B"))))
        triples.append((n, gen.iri(gen.EX + "p0"), gen.lit("v%d" % (i % 5), gen.XSD + "string")))
    order = list(range(len(triples)))
    for cap in ([255, 257, 310] if tier == "quick" else [1, 128, 255, 256, 257, 258, 300, 310, 319, 320, 321, 1000]):
        for tgt in ({"all_classes_mode": True}, {"target_classes": [gen.EX + "A", gen.EX + "B"]}):
            out.append(("bigcap-%d-%s" % (cap, "all" if "all_classes_mode" in tgt else "tc"), {
                "half": "cap", "graph": gen.L(triples), "options": {"instances_report_mode": "mixed"}, "ns": dict(gen.BASE_NS),
                "cap": cap, "target": tgt, "channel": "file", "orders": [order, order]}))
    # many small classes (anything keyed on a digest of the class name meets collisions here)
    triples = []
    n_cls = 160 if tier == "quick" else 700
    for c in range(n_cls):
        for j in range(3):
            n = gen.iri(gen.EX + "m%d_%d" % (c, j))
            triples.append((n, gen.iri(gen.RDF_TYPE), gen.iri(gen.EX + "K%d" % c)))
            triples.append((n, gen.iri(gen.EX + "p%d" % (c % 4)), gen.lit("v%d" % j, gen.XSD + "string")))
    order = list(range(len(triples)))
    for cap in (1, 2):
        for tgt in ({"all_classes_mode": True}, {"target_classes": [gen.EX + "K%d" % c for c in range(n_cls)]}):
            out.append(("manyclasses-%d-%d-%s" % (n_cls, cap, "all" if "all_classes_mode" in tgt else "tc"), {
                "half": "cap", "graph": gen.L(triples), "options": {"instances_report_mode": "mixed"}, "ns": dict(gen.BASE_NS),
                "cap": cap, "target": tgt, "channel": "file", "orders": [order, order]}))
    return out


def shrink(scen):
    g = scen["graph"]
    n = len(g)
    size = n // 2
    while size >= 1:
        for start in range(0, n, size):
            drop = set(range(start, min(n, start + size)))
            c = copy.deepcopy(scen)
            c["graph"] = [t for i, t in enumerate(g) if i not in drop]
            c["orders"] = [_project(p, drop) for p in scen["orders"]]
            yield c
        size //= 2
    for key in sorted(scen["options"]):
        if key == "instances_report_mode":
            continue
        c = copy.deepcopy(scen)
        del c["options"][key]
        yield c
    if scen["channel"] not in ("raw",):
        c = copy.deepcopy(scen)
        c["channel"] = "raw"
        c["orders"] = [scen["orders"][0], list(scen["orders"][0])]
        yield c
    if scen["half"] == "cap" and scen["cap"] > 1:
        c = copy.deepcopy(scen)
        c["cap"] -= 1
        yield c
    if scen["half"] == "ignore" and len(scen["ignore"]) > 1:
        for i in range(len(scen["ignore"])):
            c = copy.deepcopy(scen)
            del c["ignore"][i]
            yield c
    if scen["ns"] != gen.BASE_NS:
        c = copy.deepcopy(scen)
        c["ns"] = dict(gen.BASE_NS)
        yield c
    ident = list(range(n))
    if scen["orders"][0] != ident:
        c = copy.deepcopy(scen)
        c["orders"] = [ident, ident]
        yield c


def _project(p, drop):
    kept = sorted(set(p) - set(drop))
    ren = {old: new for new, old in enumerate(kept)}
    return [ren[i] for i in p if i not in drop]
