"""Helpers shared by the property modules."""
import copy
import hashlib
import json
import os

from .. import gen
from ..compare import compare_texts, tied_groups, union_ties, shacl_digest, sha
from ..shexread import Evidence
from ..world import Sim, SimEndpoint, SimStore, Result, run_once, new_shaper, call, StepCapExceeded

SHEXC = "ShEx"
SHACL = "Shacl"
NEVER_FLUSH = str(10 ** 9)

COMPONENTS_BASE = {
    "real": ["every line of shexer (current /repo working tree)", "rdflib 6.0.2 (parsers, memory store, SPARQL evaluator)",
             "gzip / zipfile / python-xz", "temp files on the real file system"],
    "stub": [],
    "not_exercised": ["wlighter (Wikidata labels)", "PlantUML / to_uml_path", "Flask service in ws/", "verbose logging"],
}


def components(stubs):
    c = copy.deepcopy(COMPONENTS_BASE)
    c["stub"] = list(stubs) + ["gzip / xzopen / ZipFile names inside the line readers and the yielder factory -> the real codecs wrapped "
                               "(armed read faults reach compressed sources; a reader on a foreign thread stalls)"]
    return c


def set_knob(value):
    os.environ["SHEXER_VERIF"] = "1"
    os.environ["SHEXER_VERIF_FLUSH_LINES"] = str(value)


def violation(oracle, klass, detail, sig=None):
    return {"oracle": oracle, "klass": klass, "detail": detail, "sig": sig}


def n_subjects(triples):
    return len({gen.T(t[0]) for t in triples})


def check_invariants(text, triples, oracle="invariant"):
    """In-run invariants (DESIGN §2.3): no ratio above 100 %, no instance count
    above the number of distinct subjects+objects of the world's graph."""
    out = []
    try:
        ev = Evidence(text)
    except Exception:
        return out
    if ev.max_ratio > 100.0 + 1e-9:
        out.append(violation(oracle, "ratio_above_100", ev.max_ratio))
    nodes = {gen.T(t[0]) for t in triples} | {gen.T(t[2]) for t in triples if t[2][0] != "l"}
    for lab, n in ev.counts.items():
        if n is not None and n > len(nodes):
            out.append(violation(oracle, "count_above_nodes", [lab, n, len(nodes)]))
    return out


def shape_stats(text):
    """(#shapes, #constraints, has tie-prone equal frequencies) for non-trivial rules"""
    try:
        ev = Evidence(text)
    except Exception:
        return 0, 0
    return len(ev.counts), ev.n_constraints


def finish(sim, violations, verdicts, nontrivial, runs, out_texts, extra=None):
    vd = hashlib.sha256(json.dumps([verdicts, sorted([(v["oracle"], v["klass"], v.get("sig")) for v in violations], key=repr)],
                                   default=str).encode()).hexdigest()[:16]
    h = hashlib.sha256()
    for t in out_texts:
        h.update((t or "").encode("utf-8", "surrogatepass"))
    # reader fidelity: how much of sheXer's text the comparators could not read (a change of wording in the
    # serializer would show here, as lost precision, instead of as an alarm)
    from .. import shexread
    for k in list(shexread.STATS):
        if shexread.STATS[k]:
            sim.probes["reader_" + k] += shexread.STATS[k]
        shexread.STATS[k] = 0
    return {
        "violations": violations,
        "probes": dict(sim.probes),
        "faults": dict(sim.faults),
        "sim_seconds": sim.clock,
        "trace_shape": sim.log.shape(),
        "log_digest": hashlib.sha256((sim.log.digest() + vd).encode()).hexdigest()[:16],
        "verdict_digest": vd,
        "out_digest": h.hexdigest()[:16],
        "nontrivial": nontrivial,
        "runs": runs,
        "extra": extra or {},
    }


def _contradiction_check_applies(options):
    if options.get("disable_exact_cardinality"):
        return False      # exact cardinalities are generalised to '+' on output: distinct facts share a key
    if options.get("inverse_paths") and options.get("disable_or_statements") is False:
        return False      # OR statements lose the '^' of inverse constraints: direct and inverse facts share a key
    return True


def compare_results(ref, out, demand="L2", oracle="equivalence", use_ties=True, check_stems=True, options=None):
    """Relational oracle with exception parity.  Returns list of violations."""
    if ref.kind == "exc" or out.kind == "exc":
        if ref.kind != out.kind or ref.exc != out.exc:
            return [violation(oracle, "exception_parity", [ref.brief(), out.brief(), (out.msg or ref.msg or "")[:160]])]
        return []
    if ref.text == out.text:
        return []
    ties = union_ties(tied_groups(ref.groups), tied_groups(out.groups)) if use_ties else frozenset()
    d = compare_texts(ref.text, out.text, ties=ties, demand=demand, check_stems=check_stems,
                      contradiction_check=_contradiction_check_applies(options or {}))
    if d is None:
        return []
    return [violation(oracle, d.klass(), d.detail)]
