"""C19 — extraction is deterministic across interpreter processes.

Simulated system: each scenario is a batch of cases (graph, channel, target,
options); the batch is executed in K fresh interpreters, each with its own
PYTHONHASHSEED, its own random.seed and a seeded amount of pre-allocated
garbage.  The input documents are materialised once, in the parent, so every
child reads exactly the same bytes.  The interpreter's entropy is the
'schedule' this check owns.
"""
import copy
import json
import os
import random
import subprocess
import sys

from .. import gen
from ..engine import generic_shrink, VERIF
from ..compare import compare_texts, tied_groups, union_ties, ALL_TIED, sha
from ..world import target_kwargs
from .common import Sim, SimEndpoint, violation, finish, set_knob, NEVER_FLUSH, components, shape_stats, SHEXC, SHACL

ID = "C19"
LEVEL = "exploration"
HAS_CLOCK = False
COUNTS = {"quick": 24, "thorough": 1600}
WALL = {"quick": 900, "thorough": 7 * 3600}
SHRINK_WALL = {"quick": 150, "thorough": 900}
SELFTEST_N = {"quick": 4, "thorough": 16}
CHUNK = 1
CASES_PER_BATCH = {"quick": 9, "thorough": 10}
K_SEEDS = {"quick": 6, "thorough": 16}
RULE = ("Scenario = seeded batch of cases (graph, delivery channel in {nt, tsv, turtle_iter, turtle, xml, json-ld, rdflib.Graph, "
        "endpoint cache on/off with canonical row order, local shape map}, target incl. shape maps and SPARQL selectors, options, "
        "user prefixes incl. ones occupying sheXer's default shape prefixes) executed in K fresh interpreters with distinct "
        "PYTHONHASHSEED / random.seed / heap garbage, some of them optimised (-O) and some started under LC_ALL=C with UTF-8 mode off "
        "(those are asked only for what the unchanged library decodes with an explicit encoding: no output file, no targets handed over as files); "
        "zip / xz / gz members and a compressed Turtle document with relative IRIs among the channels; ShExC sha-256 and SHACL canonical graph digest compared across the K. "
        "Non-trivial case = at least one shape, at least two constraints of equal frequency in some shape (otherwise no order can "
        "vary) and >= 2 distinct hash seeds run; distinct = distinct case documents.")
COMPONENTS = components(["SPARQLWrapper -> SimEndpoint with canonical row order (endpoint cases only)"])
ASSUMPTIONS = [
    "hash seeds are sampled (K per scenario), not enumerated",
    "cases whose user prefixes occupy all four default shape prefixes are generated and executed but exempt, as the statement says (random prefix of last resort)",
    "input documents are serialised once in the parent process: every child parses identical bytes",
    "all interpreters of a scenario share one working directory (relative IRIs of a document without @base resolve against it)",
]
SELFTEST_HASHSEEDS = ["0", "4242"]

STORE_BACKED = ("turtle", "xml", "json-ld", "n3", "rdflib_graph", "endpoint_on", "shape_map_local", "gz_turtle_rel")
EP_URL = "http://sim.test/sparql"


# ---------------------------------------------------------------------------
# generation (parent, PYTHONHASHSEED=0)
# ---------------------------------------------------------------------------

def gen_case(rng, tier):
    channel = rng.choice(["nt", "nt", "tsv", "turtle_iter", "turtle", "turtle", "xml", "json-ld", "rdflib_graph", "rdflib_graph",
                          "endpoint_on", "endpoint_off", "endpoint_off", "endpoint_deep", "endpoint_deep", "endpoint_mixed", "nt_mixed", "nt_mixed", "shape_map_local", "zip_nt",
                          "xz_nt", "gz_nt", "gz_turtle_rel"])
    endpoint = channel.startswith("endpoint")
    kinds = ("node", "str", "int", "iri", "iri2") if (endpoint or channel == "turtle_iter") else ("node", "str", "int", "lang", "date", "iri", "iri2", "cdt")
    deep = channel == "endpoint_deep" or (channel == "endpoint_off" and rng.random() < 0.35)
    if deep:
        kinds = ("node", "node", "node", "str", "iri")    # many links between nodes: the exploration frontier holds several neighbours
    n_nodes = rng.choice([3, 4, 6, 8, 10]) if tier == "quick" else rng.choice([3, 4, 6, 8, 10, 16, 24])
    clash = channel == "turtle" and rng.random() < 0.5    # the document binds the caller's usual labels to other vocabularies
    # tie-prone graphs: few distinct structures, so that equally frequent constraints abound
    triples = gen.gen_graph(rng, n_nodes=n_nodes, n_classes=rng.randint(1, 3), n_props=rng.randint(2, 5), kinds=kinds,
                            bnodes=(endpoint and rng.random() < 0.3),   # answers with bnode bindings (labels are the endpoint's own)
                            prop_namespaces=((gen.EX, "http://vocab.org/t#", "http://terms.org/u/") if clash else
                                             rng.choice([(gen.EX,), (gen.EX, gen.OTHER)])),
                            density=rng.choice([0.5, 0.7, 0.9]), twins=0 if endpoint else 0.06,
                            # class names with non-ASCII characters where bytes are decoded by the library itself
                            odd_classes=0.6 if channel in ("zip_nt", "xz_nt", "gz_nt") else 0.1)
    tp = gen.CUSTOM_TYPE if rng.random() < 0.12 else gen.RDF_TYPE
    triples = gen.retype(gen.ensure_class(triples), tp)
    # sometimes two classes of different vocabularies share their local name (ex:C0 / oth:C0): their shape labels collide
    # and one of them must be disambiguated - the same way in every interpreter (decided without drawing from `rng`)
    r3 = random.Random("C19-samelocal|%r" % (triples[:30],))
    if r3.random() < 0.12 and {gen.iri(gen.EX + "C0"), gen.iri(gen.EX + "C1")} <= {t[2] for t in triples}:
        a, b = gen.iri(gen.EX + "C1"), gen.iri(gen.OTHER + "C0")
        triples = [tuple(b if x == a else x for x in t) for t in triples]
    allow_sm = channel in ("nt", "endpoint_on", "endpoint_off", "shape_map_local", "rdflib_graph")
    if channel == "nt_mixed":
        # plain node selectors need no query (nothing passes through the rdflib store), all_classes_mode adds every
        # other typed node through the class tracker: the mixed tracker merges the two
        iris = sorted({t[0][1] for t in triples if t[0][0] == "i" and t[0][1].startswith("http")})
        picked = rng.sample(iris, min(len(iris), rng.randint(1, 2)))
        target = {"shape_map_raw": "\n".join("<%s>@<http://sh.org/S%d>" % (x, j) for j, x in enumerate(picked)),
                  "all_classes_mode": True}
    elif channel == "endpoint_mixed":
        # a one- or two-item shape map plus all_classes_mode: most instances reach the (mixed) tracker through the
        # class tracker only, the others through both
        target = {"shape_map_raw": gen.gen_shape_map(rng, triples, n_items=rng.randint(1, 2), type_prop=tp), "all_classes_mode": True}
    elif channel == "endpoint_deep":
        # neighbours of the selected nodes are explored too (depth 2; endpoint answers count as IRIs only with strict
        # corners) and become instances themselves through all_classes_mode
        target = {"shape_map_raw": gen.gen_shape_map(rng, triples, type_prop=tp), "all_classes_mode": True}
        if rng.random() < 0.5:
            # one selected hub whose neighbours each belong to a class of their own: the classes are first met in the
            # order in which the frontier of the exploration is walked
            hub = gen.iri(gen.EX + "hub")
            triples = list(triples)
            for j in range(rng.randint(3, 5)):
                nb = gen.iri(gen.EX + "nb%d" % j)
                triples += [(hub, gen.iri(gen.EX + "link"), nb), (nb, gen.iri(tp), gen.iri(gen.EX + "K%d" % j)),
                            (nb, gen.iri(gen.EX + "q%d" % j), gen.lit("v%d" % j, gen.XSD + "string"))]
            target = {"shape_map_raw": "<%shub>@<http://sh.org/H>" % gen.EX, "all_classes_mode": True}
    elif channel == "shape_map_local":
        target = {"shape_map_raw": gen.gen_shape_map(rng, triples, type_prop=tp)}
    elif channel == "gz_turtle_rel":
        target = {"all_classes_mode": True}
    else:
        target = gen.gen_target(rng, triples, allow_shape_map=allow_sm, type_prop=tp)
    options = gen.gen_options(rng, allow_inverse=True)
    if tp != gen.RDF_TYPE:
        options["instantiation_property"] = tp
    if rng.random() < 0.15:
        options["detect_minimal_iri"] = True
    if rng.random() < 0.2 and "shape_map_raw" not in target and channel in ("nt", "tsv", "turtle_iter", "endpoint_off"):
        # order-defined, but every child reads the same bytes in the same order on these channels (on store-backed
        # channels the 'first k' follow rdflib's hash order: the open known finding, not re-litigated here)
        options["instances_cap"] = rng.randint(1, 3)
    has_bn = any(t[2][0] == "b" for t in triples)
    if rng.random() < (0.7 if (endpoint and has_bn) else 0.1):
        options["examples_mode"] = rng.choice(["all", "cons", "cons", "shape"])
    if options.get("detect_minimal_iri") and rng.random() < 0.5:
        options["examples_mode"] = rng.choice(["all", "shape"])      # the two options together take a code path of their own
    if channel == "endpoint_deep":
        options["depth_for_building_subgraph"] = 2
        options["strict_syntax_with_corners"] = True
    if channel == "endpoint_off" and deep:
        # neighbours of neighbours are explored too; endpoint answers count as IRIs only with strict corners
        options["depth_for_building_subgraph"] = 2
        options["strict_syntax_with_corners"] = True
        if rng.random() < 0.5 and "shape_map_raw" in target:
            target["all_classes_mode"] = True
    ns = gen.gen_namespaces(rng, shape_prefix_pressure=0.3)
    all_taken = False
    if rng.random() < 0.06:
        for i, p in enumerate(["", "weso-s", "shapes", "w-shapes"]):
            ns["http://taken%d.org/" % i] = p
        all_taken = True
    case = {"channel": channel, "graph": gen.L(triples), "target": target, "options": options, "ns": ns,
            "exempt_random_prefix": all_taken,
            # shapes that end up without constraints are removed (unless remove_empty_shapes is off) - at 0 rarely, at 0.9 often
            "threshold": rng.choice([0, 0, 0.5, 0.9, 1])}
    if channel == "turtle_iter" and rng.random() < 0.5 and not any(t[0] == "i" and not t[1].startswith("http") for tr in triples for t in tr):
        case["ttl_base"] = True        # @base and relative IRIs in the streaming dialect
    if clash:
        case["clash_labels"] = True
    if endpoint and rng.random() < 0.25:
        case["repeat_rows"] = True       # an endpoint may repeat rows (a triple in two named graphs); still deterministic
    # near misses of the stated exception: the caller's prefixes *resemble* all four defaults (other letter case, a digit
    # or an underscore more) but leave at least three of them free - a default must be chosen, nothing random
    r2 = random.Random("C19-nearmiss|%r|%r" % (case["graph"][:40], sorted(ns.items())))
    if not all_taken and r2.random() < 0.1:
        for k in [k for k in ns if k.startswith("http://taken")]:
            del ns[k]
        ns["http://taken0.org/"] = ""
        for i, p in enumerate(["weso-s", "shapes", "w-shapes"]):
            ns["http://taken%d.org/" % (i + 1)] = r2.choice([p.upper(), p.capitalize(), p + "1", p.replace("-", "_") + "_"])
        case["near_miss_prefixes"] = True
    return case


def materialise(case):
    """the exact bytes every child will read (computed in the parent only)"""
    triples = [gen.T(t) for t in case["graph"]]
    ch = case["channel"]
    if ch in ("nt", "nt_mixed", "zip_nt", "xz_nt", "gz_nt", "shape_map_local", "endpoint_on", "endpoint_off", "endpoint_deep", "endpoint_mixed", "rdflib_graph"):
        return gen.to_nt(triples)
    if ch == "gz_turtle_rel":
        # a compressed Turtle document without @base whose class IRIs are relative: they are resolved against the
        # working directory, which all interpreters of a scenario share
        return gen.to_nt(triples).replace("<" + gen.EX + "C", "<#C")
    if ch == "tsv":
        return gen.to_tsv(triples)
    if ch == "turtle_iter":
        if case.get("ttl_base"):
            return gen.to_turtle(triples, group=False, dialect="iter", base=gen.EX)
        return gen.to_nt(triples)      # N-Triples is a Turtle subset the streaming reader accepts
    if ch == "turtle":
        return gen.to_turtle(triples, clash_labels=bool(case.get("clash_labels")))
    if ch == "xml":
        return gen.to_rdfxml(triples)
    if ch == "json-ld":
        return gen.to_jsonld(triples)
    raise ValueError(ch)


def generate(rng, tier, index):
    cases = []
    for _ in range(CASES_PER_BATCH[tier]):
        c = gen_case(rng, tier)
        c["doc"] = materialise(c)
        cases.append(c)
    k = K_SEEDS[tier]
    hs = [0] + sorted(rng.sample(range(1, 4000000), k - 1))
    return {"cases": cases, "hashseeds": hs, "rand_seeds": [rng.randrange(1 << 30) for _ in hs],
            "garbage": [rng.randrange(0, 20000) for _ in hs],
            "optimize": [False] + [rng.random() < 0.4 for _ in hs[1:]],
            "ascii_locale": [False] + [rng.random() < 0.3 for _ in hs[1:]]}


# ---------------------------------------------------------------------------
# child (fresh interpreter, its own hash seed)
# ---------------------------------------------------------------------------

def _case_kwargs(case, sim):
    import rdflib
    kw = {}
    kw.update(target_kwargs(case["target"]))
    kw.update(copy.deepcopy(case["options"]))
    kw["namespaces_dict"] = copy.deepcopy(case["ns"])
    ch = case["channel"]
    doc = case["doc"]
    if ch == "zip_nt":
        # an archive as `zip -r` or a file manager writes it: folder entries, a __MACOSX member, several graph members
        import zipfile
        lines = doc.splitlines(True)
        k = max(1, len(lines) // 3)
        p = sim.path("case.zip")
        with zipfile.ZipFile(p, "w") as z:
            z.writestr("data/", "")
            for j in range(0, len(lines), k):
                z.writestr("data/part%d.nt" % (9 - j // k), "".join(lines[j:j + k]))
            z.writestr("__MACOSX/", "")
        kw["graph_file_input"] = p
        kw["compression_mode"] = "zip"
    elif ch in ("xz_nt", "gz_nt"):
        import gzip
        import xz
        p = sim.path("case.nt." + ch[:2])
        with (xz.open(p, "wb") if ch == "xz_nt" else gzip.open(p, "wb")) as f:
            f.write(doc.encode("utf-8"))
        kw["graph_file_input"] = p
        kw["compression_mode"] = ch[:2]
    elif ch == "gz_turtle_rel":
        import gzip
        p = sim.path("case.ttl.gz")
        with gzip.open(p, "wb") as f:
            f.write(doc.encode("utf-8"))
        kw["graph_file_input"] = p
        kw["compression_mode"] = "gz"
        kw["input_format"] = "turtle"
    elif ch in ("nt", "shape_map_local", "nt_mixed"):
        kw["raw_graph"] = doc
    elif ch == "tsv":
        kw["raw_graph"] = doc
        kw["input_format"] = "tsv_spo"
    elif ch == "turtle_iter":
        kw["raw_graph"] = doc
        kw["input_format"] = "turtle_iter"
    elif ch in ("turtle", "xml", "json-ld"):
        kw["raw_graph"] = doc
        kw["input_format"] = ch
    elif ch == "rdflib_graph":
        g = rdflib.Graph()
        g.parse(data=doc, format="nt")
        kw["rdflib_graph"] = g
    elif ch in ("endpoint_on", "endpoint_off", "endpoint_deep", "endpoint_mixed"):
        triples = [gen.T(t) for t in case["graph"]]
        sim.set_endpoint(SimEndpoint(sim, triples, row_seed=0, canonical_rows=True, repeat_rows=bool(case.get("repeat_rows"))))
        kw["url_endpoint"] = EP_URL
        if ch != "endpoint_on":
            kw["disable_endpoint_cache"] = True
    return kw


def child_main():
    """stdin: {"cases": [...], "rand_seed": n, "garbage": n}; stdout: CHILD <json>"""
    import tempfile
    import shutil
    from shexer.shaper import Shaper
    from ..compare import profile_groups, shacl_digest
    req = json.load(sys.stdin)
    random.seed(req["rand_seed"])
    import locale
    # an interpreter whose default text encoding is not UTF-8 (LC_ALL=C, UTF-8 mode off): only what the unchanged
    # library reads and writes with an explicit encoding is asked of it (no output file, no targets handed over as files)
    ascii_process = not sys.flags.utf8_mode and locale.getpreferredencoding(False).lower().replace("-", "") != "utf8"
    junk = [object() for _ in range(req["garbage"])] + [{"k%d" % i: i} for i in range(req["garbage"] // 7)]
    set_knob(NEVER_FLUSH)
    scratch = tempfile.mkdtemp(prefix="dsim-c19-")
    out = []
    try:
        for case in req["cases"]:
            res = {}
            if ascii_process and case["target"].get("_via_file"):
                out.append({"shex": {"kind": "skipped"}, "shacl": {"kind": "skipped"}})
                continue
            for fmt in (SHEXC, SHACL):
                sim = Sim(scratch)
                with sim:
                    try:
                        sh = Shaper(**_case_kwargs(case, sim))
                        text = sh.shex_graph(string_output=True, output_format=fmt, acceptance_threshold=case.get("threshold", 0))
                        if fmt == SHEXC:
                            groups = profile_groups(sh)
                            ties = tied_groups(groups)
                            res["shex"] = {"kind": "ok", "text": text,
                                           "ties": "ALL" if ties == ALL_TIED else sorted([list(g) for g in ties])}
                            # the same document through the file channel, in this very interpreter
                            if not ascii_process:
                                fp = sim.path("child_out.shex")
                                sh.shex_graph(output_file=fp, acceptance_threshold=case.get("threshold", 0))
                                with open(fp, encoding="utf-8") as f:
                                    res["shex"]["file_equals_string"] = (f.read() == text)
                        else:
                            try:
                                res["shacl"] = {"kind": "ok", "digest": shacl_digest(text)}
                            except Exception as e:
                                res["shacl"] = {"kind": "ok", "digest": "unparseable:" + type(e).__name__}
                            # the SHACL file channel (rdflib writes it as UTF-8 whatever the locale): same graph as the string
                            fp = sim.path("child_out.ttl")
                            try:
                                sh.shex_graph(output_file=fp, output_format=fmt, acceptance_threshold=case.get("threshold", 0))
                                with open(fp, encoding="utf-8") as f:
                                    fd = shacl_digest(f.read())
                            except Exception as e:
                                fd = "file channel raised " + type(e).__name__
                            res["shacl"]["file_equals_string"] = (fd == res["shacl"]["digest"])
                    except Exception as e:
                        res["shex" if fmt == SHEXC else "shacl"] = {"kind": "exc", "exc": type(e).__name__, "msg": str(e)[:120]}
            out.append(res)
    finally:
        shutil.rmtree(scratch, ignore_errors=True)
    del junk
    sys.stdout.write("CHILD " + json.dumps(out) + "\n")


# ---------------------------------------------------------------------------
# parent
# ---------------------------------------------------------------------------

def _spawn(cases, hashseed, rand_seed, garbage, optimize=False, ascii_locale=False):
    env = dict(os.environ)
    if ascii_locale:
        env.update({"LC_ALL": "C", "LANG": "C", "PYTHONUTF8": "0", "PYTHONCOERCECLOCALE": "0"})
    env["PYTHONHASHSEED"] = str(hashseed)
    env["DSIM_NO_REEXEC"] = "1"
    env["SHEXER_VERIF"] = "1"
    env.pop("PYTHONOPTIMIZE", None)
    # some interpreters run optimised (-O: no asserts, __debug__ False): nothing in the result may depend on it
    cmd = [sys.executable] + (["-O"] if optimize else []) + [os.path.join(VERIF, "dsim", "main.py"), "C19", "--child"]
    p = subprocess.run(cmd, input=json.dumps({"cases": cases, "rand_seed": rand_seed, "garbage": garbage}),
                       env=env, capture_output=True, text=True, timeout=1200,
                       cwd="/")     # one fixed working directory: relative IRIs resolve the same in every run and replay
    line = [l for l in p.stdout.splitlines() if l.startswith("CHILD ")]
    if p.returncode != 0 or not line:
        raise RuntimeError("C19 child failed (hashseed %s): %s" % (hashseed, p.stderr[-600:]))
    return json.loads(line[0][len("CHILD "):])


def _ties_of(res):
    t = res.get("ties")
    if t == "ALL" or t is None:
        return ALL_TIED
    return {tuple(g) for g in t}


def execute(scen, scratch):
    sim = Sim(scratch)
    violations = []
    verdicts = []
    texts = []
    cases = scen["cases"]
    per_seed = []
    for k, (h, rs, gb) in enumerate(zip(scen["hashseeds"], scen["rand_seeds"], scen["garbage"])):
        opt = bool(scen.get("optimize", [])[k:k + 1] and scen["optimize"][k])
        asc = bool(scen.get("ascii_locale", [])[k:k + 1] and scen["ascii_locale"][k])
        per_seed.append(_spawn(cases, h, rs, gb, optimize=opt, ascii_locale=asc))
        sim.probes["interpreters_started"] += 1
        if asc:
            sim.probes["interpreters_ascii_locale"] += 1
        if opt:
            sim.probes["interpreters_optimised"] += 1
    nontrivial_cases = 0
    case_flags = []
    for ci, case in enumerate(cases):
        results = [ps[ci] for ps in per_seed]
        ref = results[0]
        store_backed = case["channel"] in STORE_BACKED or ("shape_map_raw" in case["target"] and case["channel"] in ("nt",))
        exempt = case.get("exempt_random_prefix", False)
        if case.get("near_miss_prefixes"):
            sim.probes["near_miss_prefix_cases"] += 1
        verdicts.append((ci, case["channel"], ref["shex"]["kind"], sha(ref["shex"].get("text", "")) if ref["shex"]["kind"] == "ok" else ref["shex"].get("exc")))
        shex_tie_choice = False
        shex_differs = False
        for k, r in enumerate(results[1:], 1):
            a, b = ref["shex"], r["shex"]
            if b["kind"] == "skipped":
                continue
            if a["kind"] == "exc" or b["kind"] == "exc":
                if a["kind"] == b["kind"] and a.get("exc") != b.get("exc") and store_backed:
                    # every interpreter rejects the input; which of two unsupported constructs is named first follows the
                    # order of the shapes, i.e. the store order (no result exists that the statement could compare)
                    sim.probes["both_raise_other_type_store_backed"] += 1
                elif (a["kind"], a.get("exc")) != (b["kind"], b.get("exc")):
                    violations.append(violation("shexc_bytes", "exception_parity", [ci, case["channel"], a.get("exc"), b.get("exc"), scen["hashseeds"][k]]))
                continue
            if b.get("file_equals_string") is False or a.get("file_equals_string") is False:
                violations.append(violation("file_equals_string", "differs_in_some_interpreter",
                                            {"case": ci, "channel": case["channel"], "hashseed": scen["hashseeds"][k],
                                             "optimised": bool(scen.get("optimize", [False] * 99)[k])}))
            if a["text"] == b["text"]:
                continue
            sim.probes["shexc_bytes_differ"] += 1
            shex_differs = True
            if exempt:
                sim.probes["exempt_random_prefix_differs"] += 1
                continue
            ties = union_ties(_ties_of(a), _ties_of(b))
            d_strict = compare_texts(a["text"], b["text"], ties=frozenset(), demand="L2")
            d_tied = compare_texts(a["text"], b["text"], ties=ties, demand="L2", contradiction_check=False)
            if d_strict is not None:
                shex_tie_choice = True
            sig = None
            same_prefixes = sorted(l for l in a["text"].split("\n") if l.startswith("PREFIX ")) == \
                sorted(l for l in b["text"].split("\n") if l.startswith("PREFIX "))
            if store_backed and d_tied is None and same_prefixes:
                # predicted wrong behaviour: same evidence, only the order among equally frequent constraints
                # and the choice inside frequency-tied groups follow the hash-ordered rdflib store
                sig = "rdflib_store_order_tie_order"
            violations.append(violation("shexc_bytes", "bytes_differ",
                                        {"case": ci, "channel": case["channel"], "hashseeds": [scen["hashseeds"][0], scen["hashseeds"][k]],
                                         "strict": d_strict.to_json() if d_strict else "line order only",
                                         "beyond_ties": d_tied.to_json() if d_tied else None}, sig))
        for k, r in enumerate(results[1:], 1):
            a, b = ref["shacl"], r["shacl"]
            if b["kind"] == "skipped":
                continue
            if a["kind"] == "exc" or b["kind"] == "exc":
                if a["kind"] == b["kind"] and a.get("exc") != b.get("exc") and store_backed:
                    sim.probes["both_raise_other_type_store_backed"] += 1
                elif (a["kind"], a.get("exc")) != (b["kind"], b.get("exc")):
                    violations.append(violation("shacl_iso", "exception_parity", [ci, case["channel"], a.get("exc"), b.get("exc")]))
                continue
            if b.get("file_equals_string") is False or (k == 1 and a.get("file_equals_string") is False):
                violations.append(violation("file_equals_string", "shacl_differs_in_some_interpreter",
                                            {"case": ci, "channel": case["channel"], "hashseed": scen["hashseeds"][k],
                                             "ascii_locale": bool(scen.get("ascii_locale", [False] * 99)[k])}))
            if a["digest"] != b["digest"]:
                sim.probes["shacl_digest_differs"] += 1
                if exempt:
                    continue
                # (documents that re-use the caller's prefix labels make sheXer print ambiguous ShExC names, so a tie
                #  choice between two properties can read as a mere line-order difference there)
                sig = "rdflib_store_order_tie_order" if (store_backed and (shex_tie_choice or (case.get("clash_labels") and shex_differs))) else None
                violations.append(violation("shacl_iso", "not_isomorphic",
                                            {"case": ci, "channel": case["channel"], "hashseeds": [scen["hashseeds"][0], scen["hashseeds"][k]]}, sig))
        if ref["shex"]["kind"] == "ok":
            texts.append(ref["shex"]["text"])
            t = _ties_of(ref["shex"])
            from ..shexread import Evidence
            ev = Evidence(ref["shex"]["text"])
            eqfreq = False
            for L, cons in ev.full.items():
                figs = [c[4] for c in cons]
                # equal frequency among visible constraints of a shape
                ns_ = [f[0] if f else None for f in figs]
                if len(ns_) != len(set(ns_)) or len(cons) >= 2 and any(f is None for f in figs):
                    eqfreq = True
            if len(ev.counts) >= 1 and eqfreq and len(set(scen["hashseeds"])) >= 2:
                nontrivial_cases += 1
                case_flags.append(sha(json.dumps(case, sort_keys=True)))
    sim.probes["cases"] += len(cases)
    sim.probes["nontrivial_cases"] += nontrivial_cases
    for c in cases:
        sim.probes["channel_" + c["channel"]] += 1
    out = finish(sim, violations, verdicts, nontrivial_cases > 0, len(cases) * len(scen["hashseeds"]) * 2, texts,
                 extra={"nontrivial_case_digests": case_flags})
    return out


def shrink(scen):
    # one case at a time, then fewer hash seeds, then the case itself
    if len(scen["cases"]) > 1:
        for i in range(len(scen["cases"])):
            c = copy.deepcopy(scen)
            c["cases"] = [c["cases"][i]]
            yield c
    if len(scen["hashseeds"]) > 2:
        for i in range(1, len(scen["hashseeds"])):
            c = copy.deepcopy(scen)
            for key in ("hashseeds", "rand_seeds", "garbage", "optimize", "ascii_locale"):
                if key in c:
                    c[key] = [c[key][0], c[key][i]]
            yield c
    if len(scen["cases"]) == 1:
        case = scen["cases"][0]
        sub = {"graph": case["graph"], "options": case["options"]}
        for cand in generic_shrink(sub, list_keys=("graph",), dict_keys=("options",)):
            c = copy.deepcopy(scen)
            c["cases"][0]["graph"] = cand["graph"]
            c["cases"][0]["options"] = cand["options"]
            try:
                c["cases"][0]["doc"] = materialise(c["cases"][0])
            except Exception:
                continue
            yield c
