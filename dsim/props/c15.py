"""C15 — extraction from a SPARQL endpoint equals extraction from the same graph
locally; the endpoint cache changes only the number of queries.

Simulated system: Shaper(url_endpoint=...) against SimEndpoint(G), an
in-process, *consistent* SPARQL peer substituted for SPARQLWrapper; the retry
back-off sleeps on the simulated clock.  Environment schedule per scenario: row
order per query, latency, transient HTTP / internal-error bursts, exhaustion,
outage + heal, non-retryable errors, LIMIT subset choice.
"""
import copy
import random

from .. import gen
from ..engine import generic_shrink
from ..world import target_kwargs
from .common import (Sim, SimEndpoint, Result, run_once, StepCapExceeded, violation, finish, compare_results,
                     check_invariants, shape_stats, set_knob, NEVER_FLUSH, components, sha)

ID = "C15"
LEVEL = "fault_enumeration"
HAS_CLOCK = True
COUNTS = {"quick": 2000, "thorough": 200000}
WALL = {"quick": 600, "thorough": 6 * 3600}
SHRINK_WALL = {"quick": 120, "thorough": 900}
SELFTEST_N = {"quick": 32, "thorough": 256}
CHUNK = 8
RULE = ("Scenario = seeded (graph of IRI nodes with plain-string/integer literals, target in {target_classes, all_classes_mode, "
        "shape map with node/FOCUS/SPARQL selectors}, inverse_paths, class tracking at last level, instances_cap, inference "
        "switches, endpoint row-order seed, fault schedule in {none, transient bursts, retry exhaustion, outage+heal, "
        "non-retryable error} placed at positions resolved against the fault-free twin's query trace); thorough adds one "
        "outage at every query index of sampled runs. Non-trivial = at least one shape with a constraint AND (a fault fired, "
        "or the cache saved at least one query, or a LIMIT returned a proper subset); distinct = distinct scenario documents.")
COMPONENTS = components(["SPARQLWrapper (whole HTTP client) -> SimEndpoint (rdflib evaluates the query text sheXer sends; rows canonically sorted then permuted by scenario seed)",
                         "time.sleep in io/sparql/query -> SimClock"])
ASSUMPTIONS = [
    "the simulated endpoint is consistent (same query text -> same rows, same order, within a scenario) and speaks the SPARQL-JSON dialect sheXer's reader expects; duplicate rows and answers that change between the two passes are not injected",
    "graphs stay inside the stated domain: IRI nodes with http:// IRIs, plain strings that do not look like numbers or IRIs, xsd:integer",
    "reference = sheXer itself on the canonical N-Triples string (capped runs: restricted through instances_file_input to the instances C16's rule selects from the stream the endpoint delivered in pass 1)",
    "equivalence is demanded at L1 everywhere and L2 outside frequency-tied groups (row order differs from document order, so tie order may flip)",
]

EP_URL = "http://sim.test/sparql"
HTTP = ["http503", "http429", "http500", "http502"]


def generate(rng, tier, index):
    n_nodes = rng.choice([2, 3, 4, 5, 6, 8]) if tier == "quick" else rng.choice([2, 3, 4, 5, 6, 8, 10, 14])
    triples = gen.gen_graph(rng, n_nodes=n_nodes, n_classes=rng.randint(1, 3), n_props=rng.randint(1, 4),
                            kinds=("node", "str", "int", "iri", "iri2"), density=rng.choice([0.4, 0.6, 0.8]),
                            prop_namespaces=rng.choice([(gen.EX,), (gen.EX, gen.EX_DEEP, gen.EX_DEEPER, gen.OTHER)]),
                            twins=0,    # a plain string that looks like a number is outside C15's domain
                            same_local_classes=0.12, urn_nodes=rng.choice([0, 0, 0, 0.4]))
    tp = gen.CUSTOM_TYPE if rng.random() < 0.12 else gen.RDF_TYPE
    triples = gen.retype(gen.ensure_class(triples), tp)
    target = gen.gen_target(rng, triples, allow_shape_map=True, type_prop=tp)
    if "all_classes_mode" in target and tp != gen.RDF_TYPE:
        # the endpoint lists classes through rdf:type whatever instantiation_property says (outside C15's quantifier)
        tp = gen.RDF_TYPE
        triples = gen.retype([(s, gen.iri(gen.RDF_TYPE) if p[1] == gen.CUSTOM_TYPE else p, o) for (s, p, o) in triples], tp)
    options = gen.gen_options(rng, allow_inverse=True)
    if tp != gen.RDF_TYPE:
        options["instantiation_property"] = tp
    if rng.random() < 0.3:
        options["track_classes_for_entities_at_last_depth_level"] = True
    if "shape_map_raw" not in target and rng.random() < 0.35:
        sizes = [len(gen.instances_of(triples, c, tp)) for c in gen.classes_of(triples, tp)]
        options["instances_cap"] = rng.randint(1, max(sizes) + 1)
        if rng.random() < 0.3:
            # the deprecated remote limit given as well: instances_cap is the one that counts
            options["limit_remote_instances"] = rng.randint(1, max(1, options["instances_cap"]))
    if rng.random() < 0.15:
        options["detect_minimal_iri"] = True
    if rng.random() < 0.12:
        options["namespaces_to_ignore"] = rng.choice([[gen.EX], [gen.EX_DEEP], [gen.EX, gen.OTHER], [gen.RDF_NS]])
    cache_primary = rng.random() < 0.6      # cache setting of the faulted run
    # endpoint addresses as deployments have them: a named graph in the query string, upper-case host, a port
    endpoint_url = rng.choice([EP_URL, EP_URL, EP_URL + "?default-graph-uri=http%3A%2F%2Fex.org%2Fg1", "http://Sim.Test:8890/sparql/",
                               EP_URL + "?default-graph-uri=urn:g&timeout=0"])
    r = rng.random()
    config = "fault_free" if r < 0.3 else "transient" if r < 0.6 else "exhaust" if r < 0.72 else "outage" if r < 0.88 else "nonretryable"
    faults = []
    wheres = ["index", "index", "after_selector", "first_po", "first_pass2", "last"]
    if config == "transient":
        for _ in range(rng.randint(1, 3)):
            faults.append({"where": rng.choice(wheres), "offset": rng.randrange(64), "burst": rng.randint(1, 4),
                           "kind": rng.choice(HTTP + ["internal"])})
    elif config == "exhaust":
        faults.append({"where": rng.choice(wheres), "offset": rng.randrange(64), "burst": rng.choice([10, 12]),
                       "kind": rng.choice(HTTP + ["internal"])})
    elif config == "outage":
        faults.append({"where": rng.choice(wheres), "offset": rng.randrange(64), "burst": 10 ** 6, "kind": rng.choice(HTTP)})
    elif config == "nonretryable":
        faults.append({"where": rng.choice(wheres), "offset": rng.randrange(64), "burst": 1, "kind": rng.choice(["urlerror", "timeout"])})
    return {"config": config, "graph": gen.L(triples), "target": target, "options": options,
            "ns": gen.gen_namespaces(rng), "row_seed": rng.randrange(1 << 30), "cache_primary": cache_primary, "faults": faults,
            "endpoint_url": endpoint_url}


# ---------------------------------------------------------------------------

def _kwargs(scen, **extra):
    kw = {}
    kw.update(target_kwargs(scen["target"]))
    kw.update(copy.deepcopy(scen["options"]))
    kw["namespaces_dict"] = copy.deepcopy(scen["ns"])
    kw.update(extra)
    return kw


def _resolve(fault, trace):
    """trace: list of (qkind, text) of the fault-free twin's answered attempts."""
    n = len(trace)
    if n == 0:
        return 0
    where = fault["where"]
    off = fault["offset"]
    if where == "index":
        return off % n
    if where in ("after_selector", "first_po"):
        for i, (k, _) in enumerate(trace):
            if k == "po":
                return min(n - 1, i + (off % 2 if where == "after_selector" else 0))
        return off % n
    if where == "first_pass2":
        seen = set()
        for i, (k, q) in enumerate(trace):
            if q in seen:
                return i
            seen.add(q)
        return n - 1
    return n - 1


def _endpoint_run(sim, scen, triples, cache, plan=(), cap_steps=None, retry_same_shaper=False):
    ep = SimEndpoint(sim, triples, row_seed=scen["row_seed"], canonical_rows=scen.get("canonical_rows", False))
    for f in plan:
        ep.plan.append(f)
    ep.max_attempts = cap_steps
    sim.set_endpoint(ep)
    url = scen.get("endpoint_url", EP_URL)
    ep.expected_url = url          # the dataset answers under exactly the address the caller gave
    kw = _kwargs(scen, url_endpoint=url)
    if not cache:
        kw["disable_endpoint_cache"] = True
    if not retry_same_shaper:
        return run_once(kw), ep
    # faulted call, then heal the endpoint and call the SAME Shaper again
    from ..world import new_shaper, call
    holder = {}

    def first():
        holder["sh"] = new_shaper(kw)
        return holder["sh"].shex_graph(string_output=True)
    r = call(first)
    retry = None
    if r.kind == "exc" and "sh" in holder:
        ep.plan = []
        ep.outage = None
        retry = call(lambda: holder["sh"].shex_graph(string_output=True), holder["sh"])
    return r, ep, retry


def _first_delivery_stream(ep):
    """Pass-1 stream: the answered p-o rows in query order, first answer per subject
    (each target node is queried once per pass; the endpoint is consistent)."""
    seen = set()
    out = []
    for (s, rows) in ep.delivered_po:
        if s in seen:
            continue
        seen.add(s)
        for (p, o) in rows:
            out.append((s, p, o))
    return out


def _capped_reference(sim, scen, triples, ep):
    """fresh local model restricted, through instances_file_input, to the
    instances C16's rule selects from the delivered pass-1 stream."""
    k = scen["options"]["instances_cap"]
    tp = scen["options"].get("instantiation_property", gen.RDF_TYPE)
    stream = _first_delivery_stream(ep)
    relevant = None
    if "target_classes" in scen["target"]:
        relevant = set(scen["target"]["target_classes"])
    cnt = {}
    keep = []
    for (s, p, o) in stream:
        if p == tp and o.get("type") == "uri":
            c = o["value"]
            if relevant is not None and c not in relevant:
                continue
            if cnt.get(c, 0) < k:
                cnt[c] = cnt.get(c, 0) + 1
                keep.append("<%s> <%s> <%s> .\n" % (s, tp, c))
    f_graph = sim.write_file("full.nt", gen.to_nt(triples))
    f_inst = sim.write_file("inst.nt", "".join(keep))
    opts = copy.deepcopy(scen["options"])
    del opts["instances_cap"]
    kw = {}
    kw.update(target_kwargs(scen["target"]))
    kw.update(opts)
    kw["namespaces_dict"] = copy.deepcopy(scen["ns"])
    kw["graph_file_input"] = f_graph
    kw["instances_file_input"] = f_inst
    return run_once(kw), len(keep)


def execute(scen, scratch):
    sim = Sim(scratch)
    set_knob(NEVER_FLUSH)
    violations = []
    verdicts = []
    texts = []
    runs = 0
    triples = _scale_graph(scen["scale"]) if scen.get("scale") else [gen.T(t) for t in scen["graph"]]
    nt = gen.to_nt(triples)
    capped = "instances_cap" in scen["options"]
    with sim:
        try:
            # ---- fault-free twins, cache on and off
            cap0 = scen.get("step_cap", 5000)
            e_on, ep_on = _endpoint_run(sim, scen, triples, cache=True, cap_steps=cap0)
            e_off, ep_off = _endpoint_run(sim, scen, triples, cache=False, cap_steps=cap0)
            runs += 2
            verdicts += [("on", e_on.brief(), ep_on.logical), ("off", e_off.brief(), ep_off.logical)]
            # ---- oracle 1: equivalence with the local fresh model
            if capped:
                local, n_kept = _capped_reference(sim, scen, triples, ep_on)
                local_off, _ = _capped_reference(sim, scen, triples, ep_off)
                runs += 2
            else:
                local = run_once(_kwargs(scen, raw_graph=nt))
                local_off = local
                runs += 1
            verdicts.append(("local", local.brief()))
            violations += compare_results(local, e_on, oracle="equivalence_cache_on", options=scen["options"])
            violations += compare_results(local_off, e_off, oracle="equivalence_cache_off", options=scen["options"])
            # ---- oracle 2: cache transparency; oracle 3: query economy
            if not capped or _first_delivery_stream(ep_on) == _first_delivery_stream(ep_off):
                violations += compare_results(e_off, e_on, oracle="cache_transparency", options=scen["options"])
            if e_on.kind == "ok" and e_off.kind == "ok":
                if ep_on.logical > ep_off.logical:
                    violations.append(violation("query_economy", "cache_sends_more", [ep_on.logical, ep_off.logical]))
                if ep_on.logical < ep_off.logical:
                    sim.probes["cache_saved_queries"] += 1
            if e_on.kind == "ok":
                texts.append(e_on.text)
                inv = check_invariants(e_on.text, triples)
                if inv and local.kind == "ok" and not check_invariants(local.text, triples):
                    violations += inv
            # ---- faulted run against its own twin
            cache = scen["cache_primary"]
            twin, ep_twin = (e_on, ep_on) if cache else (e_off, ep_off)
            if scen["faults"] and twin.kind == "ok":
                trace = ep_twin.answered_queries
                plan = sorted((_resolve(f, trace), f["burst"], f["kind"]) for f in scen["faults"])
                if scen["config"] == "transient":
                    # keep bursts apart: two adjacent bursts would hit the same logical query and add up to an exhaustion
                    sep = []
                    nxt = 0
                    for (at, burst, kind) in plan:
                        at = max(at, nxt)
                        sep.append((at, burst, kind))
                        nxt = at + burst + 1
                    plan = sep
                budget = 20 * (len(trace) + 5) + 50
                before = sum(sim.faults.values())
                sleeps_before = sim.log.count("sleep")
                f_res, ep_f, same_retry = _endpoint_run(sim, scen, triples, cache=cache, plan=plan, cap_steps=budget,
                                                        retry_same_shaper=True)
                runs += 1
                fired = sum(sim.faults.values()) - before
                verdicts.append(("faulted", scen["config"], f_res.brief(), fired))
                config = scen["config"]
                if fired == 0:
                    if f_res.kind != "ok" or f_res.text != twin.text:
                        violations.append(violation("retry_transparency", "differs_without_fault", [twin.brief(), f_res.brief()]))
                elif config == "transient":
                    # oracle 4: transient faults are invisible
                    if f_res.kind != "ok":
                        violations.append(violation("retry_transparency", "raised_on_transient", [f_res.brief(), f_res.msg]))
                    elif f_res.text != twin.text:
                        violations.append(violation("retry_transparency", "bytes_differ", [sha(twin.text), sha(f_res.text)]))
                    else:
                        sim.probes["retry_recovered"] += 1
                    if sim.log.count("sleep") - sleeps_before < fired:
                        violations.append(violation("retry_transparency", "no_backoff", [fired, sim.log.count("sleep") - sleeps_before]))
                else:
                    # oracle 5: exhaustion / outage / non-retryable: the call raises, it never returns a document
                    if f_res.kind == "ok":
                        violations.append(violation("outage", "returned_a_document", {"config": config, "same_as_twin": f_res.text == twin.text,
                                                                                      "fired": fired}))
                    else:
                        sim.probes["%s_raised" % config] += 1
                    # the SAME Shaper called again after the heal may keep raising, but if it returns a document
                    # it is the right one ("never wrong data"; its recovery as such is C18's subject)
                    if same_retry is not None:
                        runs += 1
                        if same_retry.kind == "ok":
                            if same_retry.text != twin.text:
                                violations.append(violation("outage", "same_shaper_after_heal_wrong_document",
                                                            [sha(twin.text), sha(same_retry.text)]))
                            else:
                                sim.probes["same_shaper_recovered"] += 1
                        else:
                            sim.probes["same_shaper_still_raising"] += 1
                    # after heal a NEW Shaper satisfies oracle 1 (B-same as the fault-free twin)
                    h_res, _ = _endpoint_run(sim, scen, triples, cache=cache, cap_steps=budget)
                    runs += 1
                    if h_res.kind != "ok" or h_res.text != twin.text:
                        violations.append(violation("outage", "new_shaper_after_heal_differs", [twin.brief(), h_res.brief()]))
        except StepCapExceeded as e:
            # oracle 6: termination
            violations.append(violation("termination", "step_cap", str(e)))
    n_shapes, n_cons = (0, 0)
    if texts:
        n_shapes, n_cons = shape_stats(texts[0])
    nontrivial = n_cons > 0 and (sum(sim.faults.values()) > 0 or sim.probes.get("cache_saved_queries", 0) > 0
                                 or sim.probes.get("limit_subset_proper", 0) > 0)
    return finish(sim, violations, verdicts, nontrivial, runs, texts)


# ---------------------------------------------------------------------------

def _scale_graph(spec):
    """`instances` target nodes with `values` integer values each, plus one incoming link per target node from a node
    that is not a target: the endpoint cache has to hold instances x values triples within one Shaper."""
    triples = []
    for i in range(spec["instances"]):
        a = gen.iri(gen.EX + "a%d" % i)
        triples.append((a, gen.iri(gen.RDF_TYPE), gen.iri(gen.EX + "A")))
        for j in range(spec["values"]):
            triples.append((a, gen.iri(gen.EX + "p"), gen.lit(str(i * spec["values"] + j), gen.XSD + "integer")))
        triples.append((gen.iri(gen.EX + "b%d" % i), gen.iri(gen.EX + "employs"), a))
        if spec.get("late") and i >= spec["instances"] - spec["late"]:
            triples.append((a, gen.iri(gen.EX + "late"), gen.lit("x", gen.XSD + "string")))
    return triples


def extra_scenarios(tier, base):
    """one outage / one transient burst at every query index of sampled runs; scale: a cache of > 100 000 triples"""
    out = []
    # a neighbourhood of more than 1000 rows whose query first meets a transient error (retried requests must ask the same)
    for kind in ("internal", "http503"):
        out.append(("bigrows-%s" % kind, {
            "config": "transient", "scale": {"instances": 3, "values": 1200}, "graph": [],
            "target": {"target_classes": [gen.EX + "A"]}, "options": {"instances_report_mode": "mixed"},
            "ns": dict(gen.BASE_NS), "row_seed": 11, "cache_primary": kind == "internal",
            "faults": [{"where": "first_po", "offset": 0, "burst": 2, "kind": kind}]}))
    # a class of 2600 instances: selector answers far beyond any page size an endpoint client might use
    out.append(("manyinstances-2600", {
        "config": "fault_free", "scale": {"instances": 2600, "values": 1, "late": 600}, "graph": [], "step_cap": 60000,
        "target": {"target_classes": [gen.EX + "A"]}, "options": {"instances_report_mode": "mixed"},
        "ns": dict(gen.BASE_NS), "row_seed": 5, "cache_primary": True, "faults": []}))
    for (ni, nv) in ([(40, 60), (150, 75), (130, 400)] if tier == "quick" else [(40, 60), (150, 75), (130, 400), (120, 300), (300, 420)]):       # 150x75: a little more than 10 000 cached triples, 130x400: more than 50 000
        out.append(("scale-%dx%d" % (ni, nv), {
            "config": "fault_free", "scale": {"instances": ni, "values": nv}, "graph": [],
            "target": {"target_classes": [gen.EX + "A"]}, "options": {"instances_report_mode": "mixed", "inverse_paths": True},
            "ns": dict(gen.BASE_NS), "row_seed": 7, "cache_primary": True, "faults": []}))
    n_hist = 2 if tier == "quick" else 120
    for h in range(n_hist):
        rng = random.Random("C15-sweep:%s:%s" % (base, h))
        scen = generate(rng, tier, h)
        scen["graph"] = scen["graph"][:18]
        n_pos = 3 * 8 + 6
        for pos in range(n_pos):
            for config, burst, kind in (("outage", 10 ** 6, "http503"), ("transient", 3, "http502")):
                c = copy.deepcopy(scen)
                c["config"] = config
                c["faults"] = [{"where": "index", "offset": pos, "burst": burst, "kind": kind}]
                out.append(("sweep-%d-%s-%d" % (h, config, pos), c))
    return out


def shrink(scen):
    def extra(s):
        for key in sorted(s["options"]):
            if key == "instances_report_mode":
                continue
            c = copy.deepcopy(s)
            del c["options"][key]
            yield c
        if "shape_map_raw" in s["target"]:
            lines = s["target"]["shape_map_raw"].split("\n")
            if len(lines) > 1:
                for i in range(len(lines)):
                    c = copy.deepcopy(s)
                    c["target"]["shape_map_raw"] = "\n".join(lines[:i] + lines[i + 1:])
                    yield c
        if "target_classes" in s["target"] and len(s["target"]["target_classes"]) > 1:
            for i in range(len(s["target"]["target_classes"])):
                c = copy.deepcopy(s)
                del c["target"]["target_classes"][i]
                yield c
        if s["ns"] != gen.BASE_NS:
            c = copy.deepcopy(s)
            c["ns"] = dict(gen.BASE_NS)
            yield c
        for j, f in enumerate(s["faults"]):
            if f["burst"] > 1 and f["burst"] < 100:
                c = copy.deepcopy(s)
                c["faults"][j]["burst"] = f["burst"] // 2
                if c["config"] == "exhaust":
                    c["config"] = "transient"      # a shorter burst no longer uses the retries up: the call is expected to succeed
                yield c
    for c in generic_shrink(scen, list_keys=("faults", "graph"), dict_keys=(), extra=extra):
        if not c["faults"] and c["config"] != "fault_free":
            c["config"] = "fault_free"             # the expectation follows the schedule that is left
        # keep the generator's invariant: at least one typing triple (an endpoint without any class is a different, trivial case)
        if gen.classes_of([gen.T(t) for t in c["graph"]], c["options"].get("instantiation_property", gen.RDF_TYPE)):
            yield c
