#!/venv/bin/python
"""(Re)write seeded/<id>/meta.json by confirming each seeded change and running the quick check(s) against it."""
import json, os, subprocess, sys, re
VERIF = os.path.dirname(os.path.dirname(os.path.abspath(__file__)))
only = set(sys.argv[1:])
for name in sorted(os.listdir(os.path.join(VERIF, "seeded"))):
    d = os.path.join(VERIF, "seeded", name)
    if not os.path.isdir(d) or (only and name not in only):
        continue
    prop = name.split("-")[0]
    dm = json.load(open(os.path.join(VERIF, "seeded", "detect_map.json"))).get(name, {})
    chk = dm.get("check", prop)
    tier = dm.get("tier", "quick")
    p = subprocess.run(["/venv/bin/python", os.path.join(VERIF, "tools", "try_seed.py"), d, chk, "--tier", tier] + dm.get("args", []),
                       capture_output=True, text=True, timeout=7200)
    try:
        r = json.loads(p.stdout)
    except Exception:
        print(name, "try_seed failed", p.stdout[-300:], p.stderr[-300:]); continue
    notes = open(os.path.join(d, "notes.md")).read() if os.path.exists(os.path.join(d, "notes.md")) else ""
    meta_path = os.path.join(d, "meta.json")
    old = json.load(open(meta_path)) if os.path.exists(meta_path) else {}
    meta = {
        "id": name, "breaks_property": prop,
        "origin": old.get("origin", "written by an independent sub-agent that saw only the property text and a scratch worktree"),
        "needs_to_manifest": old.get("needs_to_manifest", ""),
        "confirmed": {"patch_applies": r.get("patch_applies"), "suite_still_182_passed_20_failed": r.get("suite_ok"),
                      "demo_exit_with_change": r.get("demo_exit_patched"), "demo_exit_without_change": r.get("demo_exit_unchanged")},
        "what_was_run": "tools/try_seed.py seeded/%s %s --tier %s %s (scratch copy of /repo + patch -p1; test suite; demo.py on both trees; bin/check %s %s with DSIM_REPO=<copy>)" % (name, chk, tier, " ".join(dm.get("args", [])), chk, tier),
        "caught_by": {"check": chk, "tier": tier, "args": dm.get("args", []), "why_this_check": dm.get("why", "own property"),
                      "exit": r.get("check_%s_exit" % chk), "seconds": r.get("check_%s_s" % chk),
                      "first_violation": (r.get("check_%s_violations" % chk) or [""])[0][:300]},
        "history": old.get("history", ""),
    }
    json.dump(meta, open(meta_path, "w"), indent=1)
    print(name, meta["confirmed"], meta["caught_by"]["exit"], flush=True)
