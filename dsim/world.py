"""The simulated environment: clock, event log, SPARQL endpoint, HTTP peer,
rdflib store, file system — and the seam installer.

Nothing in here draws from a shared PRNG or reads a real clock: every ordering,
delay and fault is a pure function of the scenario document.
"""
import builtins
import errno
import hashlib
import io
import json
import os
import random
import re
from collections import Counter
from email.message import Message
from urllib.error import HTTPError, URLError

import rdflib

from . import gen

# ---------------------------------------------------------------------------
# event log
# ---------------------------------------------------------------------------


class EventLog(object):
    def __init__(self):
        self.events = []

    def add(self, kind, *args):
        self.events.append((len(self.events), kind) + tuple(args))

    def digest(self):
        h = hashlib.sha256()
        for e in self.events:
            h.update(repr(e).encode())
        return h.hexdigest()[:16]

    def shape(self):
        """digest of the kind/outcome sequence with identifiers abstracted away"""
        h = hashlib.sha256()
        for e in self.events:
            h.update(("%s|%s;" % (e[1], e[2] if len(e) > 2 else "")).encode())
        return h.hexdigest()[:12]

    def count(self, kind, pred=None):
        return sum(1 for e in self.events if e[1] == kind and (pred is None or pred(e)))


# ---------------------------------------------------------------------------
# endpoint
# ---------------------------------------------------------------------------

_RE_PO = re.compile(r"^SELECT \?p \?o WHERE \{ <([^>]*)> \?p \?o \.\}\s*$")
_RE_SP = re.compile(r"^SELECT \?s \?p WHERE \{ \?s \?p <([^>]*)> \.\}\s*$")
_RE_CL = re.compile(r"^SELECT \?o WHERE \{ <([^>]*)> <([^>]*)> \?o \. \}\s*$")
_RE_CLS = re.compile(r"^SELECT distinct \?o where \{ \?s <([^>]*)> \?o \. \}\s*$")
_RE_LIMIT = re.compile(r"LIMIT\s+(\d+)\s*$")


def classify_query(q):
    if _RE_PO.match(q):
        return "po"
    if _RE_SP.match(q):
        return "sp"
    if _RE_CL.match(q):
        return "class"
    if _RE_CLS.match(q):
        return "classes"
    return "selector"


class EndPointInternalErrorProxy(object):
    pass


class _FakeResult(object):
    def __init__(self, d):
        self._d = d

    def convert(self):
        return self._d


HTTP_KINDS = {"http429": 429, "http500": 500, "http502": 502, "http503": 503}


class SimEndpoint(object):
    """In-process SPARQL endpoint serving one graph, consistently: the same
    query text always gets the same rows in the same order within a scenario."""

    def __init__(self, sim, triples, row_seed=0, faults=(), canonical_rows=False,
                 inconsistent=False, repeat_rows=False):
        self.sim = sim
        self.expected_url = None            # when set: the only address under which this dataset answers
        self.graph = gen.to_rdflib_graph(triples)
        self.row_seed = row_seed
        self.canonical_rows = canonical_rows
        self.repeat_rows = repeat_rows      # every third row of an answer is delivered twice (still a consistent endpoint)
        self.attempt = 0                    # every HTTP attempt
        self.logical = 0                    # attempts that were answered
        self.plan = []                      # (first_attempt, burst, kind)
        for f in faults:
            self.add_fault(f)
        self.outage = None                  # kind while the endpoint is down
        self.max_attempts = None            # step cap (termination oracle)
        self._cache = {}
        self.delivered_po = []              # (subject, [(p, o-json)...]) per answered p-o query, in order
        self.answered_queries = []          # (qkind, text) answered, in order

    def add_fault(self, f):
        self.plan.append((int(f["at"]), int(f.get("burst", 1)), f["kind"]))

    def _fault_for(self, idx):
        if self.outage is not None:
            return self.outage
        for (at, burst, kind) in self.plan:
            if at <= idx < at + burst:
                return kind
        return None

    # -- evaluation ---------------------------------------------------------
    @staticmethod
    def _term(t):
        if isinstance(t, rdflib.URIRef):
            return {"type": "uri", "value": str(t)}
        if isinstance(t, rdflib.BNode):
            return {"type": "bnode", "value": str(t)}
        d = {"type": "literal", "value": str(t)}
        if t.language:
            d["xml:lang"] = t.language
        elif t.datatype:
            d["datatype"] = str(t.datatype)
        return d

    def _evaluate(self, body):
        """rows of a query.  The four fixed query shapes sheXer emits are answered by
        direct triple-pattern lookup; anything else (selectors) by rdflib's evaluator."""
        g = self.graph
        U = rdflib.URIRef
        m = _RE_PO.match(body)
        if m:
            return ["p", "o"], [(p, o) for (_, p, o) in g.triples((U(m.group(1)), None, None))]
        m = _RE_SP.match(body)
        if m:
            return ["s", "p"], [(s, p) for (s, p, _) in g.triples((None, None, U(m.group(1))))]
        m = _RE_CL.match(body)
        if m:
            return ["o"], [(o,) for (_, _, o) in g.triples((U(m.group(1)), U(m.group(2)), None))]
        m = _RE_CLS.match(body)
        if m:
            return ["o"], [(o,) for o in {o for (_, _, o) in g.triples((None, U(m.group(1)), None))}]
        res = g.query(body)
        return [str(v) for v in res.vars], [tuple(r) for r in res]

    def answer(self, q):
        if q in self._cache:
            return self._cache[q]
        m = _RE_LIMIT.search(q)
        body = q[:m.start()] if m else q
        vars_, raw = self._evaluate(body)
        rows = [{v: self._term(r[i]) for i, v in enumerate(vars_) if r[i] is not None} for r in raw]
        rows.sort(key=lambda r: json.dumps(r, sort_keys=True))
        if not self.canonical_rows:
            random.Random("%s|%s" % (self.row_seed, q)).shuffle(rows)
        if self.repeat_rows:
            rows = [r for i, r in enumerate(rows) for _ in range(2 if i % 3 == 0 else 1)]
        if m:
            full = len(rows)
            rows = rows[:int(m.group(1))]
            if len(rows) < full:
                self.sim.probes["limit_subset_proper"] += 1
        out = {"head": {"vars": vars_}, "results": {"bindings": rows}}
        self._cache[q] = out
        return out

    # -- the SPARQLWrapper stand-in ----------------------------------------
    def wrapper_class(self):
        ep = self

        class SimSPARQLWrapper(object):
            def __init__(self, url, *a, **k):
                self.url = url
                self.agent = None
                self._q = None

            def setQuery(self, s):
                self._q = s

            def setReturnFormat(self, f):
                pass

            def query(self):
                if ep.expected_url is not None and self.url != ep.expected_url:
                    # another address (e.g. the same host without its ?default-graph-uri=...): another dataset, which
                    # here holds nothing
                    ep.sim.probes["endpoint_addressed_elsewhere"] += 1
                    ep.sim.log.add("query", "elsewhere", _abbr(self.url))
                    return _FakeResult({"head": {"vars": []}, "results": {"bindings": []}})
                return ep.serve(self._q)
        return SimSPARQLWrapper

    def serve(self, q):
        self.sim.yield_point("query")
        idx = self.attempt
        self.attempt += 1
        sim = self.sim
        if self.max_attempts is not None and self.attempt > self.max_attempts:
            raise StepCapExceeded("endpoint attempts > %d" % self.max_attempts)
        qk = classify_query(q)
        sim.clock += 0.005 + (int(hashlib.md5(("%s|%d" % (self.row_seed, idx)).encode()).hexdigest()[:4], 16) % 400) / 1000.0
        kind = self._fault_for(idx)
        if kind is not None:
            sim.faults[kind] += 1
            sim.log.add("query", qk, "fault:" + kind, _abbr(q))
            if kind in HTTP_KINDS:
                raise HTTPError("http://sim.test/sparql", HTTP_KINDS[kind], "simulated " + kind, Message(), None)
            if kind == "internal":
                from SPARQLWrapper.SPARQLExceptions import EndPointInternalError
                raise EndPointInternalError("simulated internal error")
            if kind == "urlerror":
                raise URLError("simulated connection refused")
            if kind == "timeout":
                raise TimeoutError("simulated timeout")
            raise AssertionError(kind)
        out = self.answer(q)
        self.logical += 1
        self.answered_queries.append((qk, q))
        if qk == "po":
            s = _RE_PO.match(q).group(1)
            self.delivered_po.append((s, [(row["p"]["value"], row["o"]) for row in out["results"]["bindings"]]))
        sim.log.add("query", qk, "ok", _abbr(q), len(out["results"]["bindings"]))
        return _FakeResult(out)


class StepCapExceeded(BaseException):
    """raised by the simulator, never by sheXer; BaseException so that no
    `except Exception` in the code under test can swallow it"""


def _abbr(q):
    return hashlib.md5(q.encode()).hexdigest()[:8]


# ---------------------------------------------------------------------------
# HTTP peer for url_graph_input / list_of_url_input
# ---------------------------------------------------------------------------

class _FakeResp(io.BytesIO):
    def __init__(self, data, url, ctype, reset_after=None, sim=None):
        super().__init__(data)
        self.url = url
        self.headers = Message()
        self.headers["Content-Type"] = ctype
        self._reset_after = reset_after      # bytes delivered before the simulated connection reset
        self._sim = sim

    def _maybe_reset(self):
        if self._reset_after is not None and self.tell() >= self._reset_after:
            self._reset_after = None
            if self._sim is not None:
                self._sim.faults["url_reset_mid_transfer"] += 1
                self._sim.log.add("fetch", "fault:reset_mid_transfer", self.url.rsplit("/", 1)[-1])
            raise ConnectionResetError(errno.ECONNRESET, "simulated connection reset by peer")

    def read(self, n=-1):
        if self._reset_after is not None:
            left = self._reset_after - self.tell()
            if left <= 0:
                self._maybe_reset()
            if n is None or n < 0 or n > left:
                n = left
        return super().read(n)

    def readline(self, n=-1):
        self._maybe_reset()
        return super().readline(n)

    def __iter__(self):
        return self

    def __next__(self):
        self._maybe_reset()
        l = super().readline()
        if not l:
            raise StopIteration
        return l

    def info(self):
        return self.headers

    def geturl(self):
        return self.url


class SimHTTP(object):
    def __init__(self, sim):
        self.sim = sim
        self.docs = {}           # url -> (bytes, content type)
        self.fetches = 0
        self.fail_fetches = {}   # fetch index -> http code
        self.reset_fetches = {}  # fetch index -> bytes delivered before a connection reset

    def serve(self, url, data, ctype):
        self.docs[url] = (data if isinstance(data, bytes) else data.encode("utf-8"), ctype)

    def urlopen(self, req, *a, **k):
        # a fetch issued from a thread other than the caller's is parked until a later one has been let through first:
        # concurrent downloads then complete in another order than they were submitted (no effect on the shipped code,
        # which fetches from the calling thread only)
        self.sim.fs._park_foreign_thread()
        self.sim.yield_point("fetch")
        url = req.full_url if hasattr(req, "full_url") else req
        idx = self.fetches
        self.fetches += 1
        self.sim.clock += 0.05
        if idx in self.fail_fetches:
            code = self.fail_fetches[idx]
            self.sim.faults["url_http_%d" % code] += 1
            self.sim.log.add("fetch", "fault:%d" % code, url.rsplit("/", 1)[-1])
            raise HTTPError(url, code, "simulated", Message(), None)
        if url not in self.docs:
            self.sim.log.add("fetch", "404", url.rsplit("/", 1)[-1])
            raise HTTPError(url, 404, "not found", Message(), None)
        data, ctype = self.docs[url]
        self.sim.log.add("fetch", "ok", url.rsplit("/", 1)[-1], len(data))
        if idx in self.reset_fetches:
            return _FakeResp(data, url, ctype, reset_after=min(len(data) - 1, max(1, self.reset_fetches[idx])), sim=self.sim)
        return _FakeResp(data, url, ctype)


# ---------------------------------------------------------------------------
# rdflib store whose delivery order the scheduler owns
# ---------------------------------------------------------------------------

def _tkey(t):
    return tuple(x.n3() for x in t)


class SimStore(rdflib.Graph):
    """rdflib.Graph delivering its triples in a scheduler-chosen order; the order
    of full iterations is drawn per pass when `independent`."""

    def configure(self, sim, order_seed, independent=True, explicit_orders=None):
        self._sim = sim
        self._order_seed = order_seed
        self._independent = independent
        self._explicit = explicit_orders      # list of index permutations, one per pass
        self._passes = 0
        self.orders_delivered = []
        return self

    def _ordered(self, triples, key):
        ts = sorted(triples, key=_tkey)
        random.Random("%s|%s" % (self._order_seed, key)).shuffle(ts)
        return ts

    def __iter__(self):
        p = self._passes
        self._passes += 1
        base = sorted(rdflib.Graph.triples(self, (None, None, None)), key=_tkey)
        if self._explicit is not None and p < len(self._explicit):
            ts = [base[i] for i in self._explicit[p]]
        else:
            ts = list(base)
            random.Random("%s|pass|%s" % (self._order_seed, p if self._independent else 0)).shuffle(ts)
        sim = self._sim
        sim.log.add("pass_start", "store", p)
        self.orders_delivered.append([_tkey(t) for t in ts])
        n = 0
        done = False
        try:
            for t in ts:
                n += 1
                sim.yield_point("triple")
                yield t
            done = True
        finally:
            sim.log.add("pass_end", "store", "exhausted" if done else "cut_off", n)
            if not done:
                sim.probes["pass_cut_off"] += 1

    def triples(self, pattern):
        if pattern == (None, None, None) or not hasattr(self, "_sim"):
            for t in rdflib.Graph.triples(self, pattern):
                yield t
            return
        for t in self._ordered(rdflib.Graph.triples(self, pattern), repr(pattern)):
            yield t


# ---------------------------------------------------------------------------
# file system seam
# ---------------------------------------------------------------------------

class _Reader(object):
    def __init__(self, fs, real, path):
        self.fs = fs
        self.real = real
        self.path = path

    def __enter__(self):
        return self

    def __exit__(self, *a):
        self.real.close()

    def close(self):
        self.real.close()

    def __iter__(self):
        fs = self.fs
        sim = fs.sim
        name = os.path.basename(self.path)
        sim.log.add("pass_start", "file", name)
        n = 0
        done = False
        try:
            for l in self.real:
                if fs.read_fault_left == 0:
                    fs.read_fault_left = -1
                    sim.faults["source_" + fs.read_errno.lower()] += 1
                    sim.log.add("read", "fault:" + fs.read_errno, name, n)
                    raise OSError(getattr(errno, fs.read_errno), "simulated " + fs.read_errno)
                if fs.read_fault_left > 0:
                    fs.read_fault_left -= 1
                fs.lines_read += 1
                n += 1
                sim.yield_point("read")
                yield l
            done = True
        finally:
            sim.log.add("pass_end", "file", "exhausted" if done else "cut_off", n)
            if not done:
                sim.probes["pass_cut_off"] += 1

    def read(self, *a):
        return self.real.read(*a)

    def __getattr__(self, name):
        # seek / tell / readline / ...: whatever else the code under test does with its file goes to the real one
        return getattr(self.real, name)


class _BinReader(object):
    """binary file whose reads may come back short (legal for pipes, sockets, network mounts): at most
    fs.short_read_max bytes per read() call.  sheXer reads plain files in text mode, line by line, so on the shipped
    code this wrapper is never constructed."""

    def __init__(self, fs, real):
        self.fs = fs
        self.real = real

    def __enter__(self):
        return self

    def __exit__(self, *a):
        self.real.close()

    def read(self, n=-1):
        cap = self.fs.short_read_max
        if cap and (n is None or n < 0 or n > cap):
            self.fs.sim.probes["short_reads"] += 1
            n = cap
        return self.real.read(n)

    def readinto(self, b):
        cap = self.fs.short_read_max
        if cap and len(b) > cap:
            data = self.real.read(cap)
            b[:len(data)] = data
            return len(data)
        return self.real.readinto(b)

    def __iter__(self):
        return iter(self.real)

    def __getattr__(self, name):
        return getattr(self.real, name)


class _ShortRaw(io.FileIO):
    """raw layer of a sink that accepts at most fs.short_write_max bytes per write() call and says so in its return
    value (legal for a raw stream: a pipe, a network mount, a nearly full disk).  The buffered and text layers the shipped
    code writes through absorb it."""
    _fs = None

    def write(self, b):
        cap = self._fs.short_write_max
        mv = memoryview(b)
        if cap and len(mv) > cap:
            self._fs.sim.probes["short_writes"] += 1
            mv = mv[:cap]
        return io.FileIO.write(self, mv)


class _Writer(object):
    def __init__(self, fs, real, path):
        self.fs = fs
        self.real = real
        self.path = path

    def __enter__(self):
        return self

    def __exit__(self, *a):
        self.real.close()

    def close(self):
        self.real.close()

    def write(self, s):
        fs = self.fs
        if fs.write_fault_left == 0:
            fs.write_fault_left = -1
            fs.sim.faults["sink_" + fs.write_errno.lower()] += 1
            fs.sim.log.add("write", "fault:" + fs.write_errno, fs.writes)
            raise OSError(getattr(errno, fs.write_errno), "simulated " + fs.write_errno)
        if fs.write_fault_left > 0:
            fs.write_fault_left -= 1
        fs.writes += 1
        fs.sim.yield_point("write")
        return self.real.write(s)

    def __getattr__(self, name):
        return getattr(self.real, name)


class _GzipSeam(object):
    """stands in for the `gzip` module inside shexer.io.line_reader.gz_line_reader: open() returns the real GzipFile
    wrapped so that the armed read fault (SimFS.read_fault_left, counted in lines) also reaches .gz sources"""

    def __init__(self, fs):
        self.fs = fs

    def open(self, path, mode="rb", *a, **k):
        import gzip as real_gzip
        real = real_gzip.open(path, mode, *a, **k)
        return _GzLines(self.fs, real, path)

    def __getattr__(self, name):
        import gzip as real_gzip
        return getattr(real_gzip, name)


def _xz_seam(fs):
    """stands in for `xzopen` inside shexer.io.line_reader.xz_line_reader: lines pass the armed read fault; a reader that
    runs on a thread other than the caller's is a slow peer - it stalls once in mid-stream (real time: a consumer that
    waits for it with a timeout measures real time too; never happens on the shipped code, which reads on the caller's thread)"""
    import xz as real_xz

    def xzopen(path, mode="r", *a, **k):
        return _GzLines(fs, real_xz.open(path, mode, *a, **k), str(path), kind="xz", stall=True)
    return xzopen


def _zip_seam(fs):
    """stands in for `ZipFile` inside shexer.utils.factories.triple_yielders_factory: members opened from such an archive
    deliver their lines through the armed read fault (SimFS.read_fault_left, counted in lines) like plain files do"""
    import zipfile

    class SimZipFile(zipfile.ZipFile):
        def open(self, name, mode="r", *a, **k):
            real = zipfile.ZipFile.open(self, name, mode, *a, **k)
            if "r" in mode:
                return _GzLines(fs, real, str(getattr(name, "filename", name)), kind="zip")
            return real
    return SimZipFile


class _GzLines(object):
    STALL_S = 1.2

    def __init__(self, fs, real, path, kind="gz", stall=False):
        self.fs, self.real, self.path, self.kind, self.stall = fs, real, path, kind, stall

    def __enter__(self):
        return self

    def __exit__(self, *a):
        self.real.close()

    def __iter__(self):
        fs = self.fs
        import threading
        foreign = self.stall and threading.current_thread() is not threading.main_thread() \
            and not (fs.sim.interleaver is not None and fs.sim.interleaver._is_task_thread())
        for n, l in enumerate(self.real):
            if foreign and n == 1:
                import time as _time
                fs.sim.faults["source_stalled_on_foreign_thread"] += 1
                _time.sleep(self.STALL_S)
            if fs.read_fault_left == 0:
                fs.read_fault_left = -1
                fs.sim.faults["source_%s_%s" % (self.kind, fs.read_errno.lower())] += 1
                fs.sim.log.add("read", "fault:" + fs.read_errno, os.path.basename(self.path))
                raise OSError(getattr(errno, fs.read_errno), "simulated " + fs.read_errno)
            if fs.read_fault_left > 0:
                fs.read_fault_left -= 1
            fs.sim.yield_point("read")
            yield l

    def __getattr__(self, name):
        return getattr(self.real, name)


class SimFS(object):
    # Writers that arrive on a thread other than the caller's are scheduled adversarially: a writer is parked until a
    # later one has arrived and been let through first (or a short real-time bound expires).  sheXer itself has no
    # threads, so on the shipped code this never runs and costs nothing; it exists so that a change which hands chunks
    # of the output to concurrent writers meets the interleaving a slow disk would produce.
    PARK_S = 0.05
    YIELD_S = 0.03

    def _park_foreign_thread(self):
        import threading
        if threading.current_thread() is threading.main_thread():
            return
        if self.sim.interleaver is not None and self.sim.interleaver._is_task_thread():
            return      # a caller task of an overlap scenario: scheduled by the interleaver, not parked
        import time as _time
        with self._cv:
            ticket = self._arrivals
            self._arrivals += 1
            self.sim.probes["writer_threads_parked"] += 1
            self._cv.notify_all()
            end = _time.monotonic() + self.PARK_S
            while self._arrivals == ticket + 1:
                left = end - _time.monotonic()
                if left <= 0:
                    return
                self._cv.wait(left)
        _time.sleep(self.YIELD_S)      # a newer writer arrived: let it go first

    def __init__(self, sim):
        import threading
        self._cv = threading.Condition()
        self._arrivals = 0
        self.sim = sim
        self.short_read_max = 0        # > 0: binary reads through the seam return at most that many bytes
        self.short_write_max = 0       # > 0: the raw layer of a sink accepts at most that many bytes per call
        self.read_fault_left = -1      # n >= 0: fail when n more lines have been delivered
        self.read_errno = "EIO"
        self.read_open_fault = None    # (k, errno name): the k-th open for reading from now fails
        self.special = {}              # path of an empty file -> path of the file whose content a read delivers
        self.write_fault_left = -1
        self.write_errno = "ENOSPC"
        self.open_fault = None         # "w" -> EACCES on next open for writing
        self.lines_read = 0
        self.writes = 0
        self.append_opens = 0

    def open_for_read(self, path, mode="r", *a, **k):
        if self.read_open_fault is not None:
            left, name = self.read_open_fault
            if left == 0:
                self.read_open_fault = None
                self.sim.faults["source_open_" + name.lower()] += 1
                self.sim.log.add("open", "fault:" + name, os.path.basename(path))
                exc = {"ENOENT": FileNotFoundError, "EACCES": PermissionError}.get(name, OSError)
                raise exc(getattr(errno, name), "simulated " + name, path)
            self.read_open_fault = (left - 1, name)
        # a special file (procfs / FUSE style): stat() says 0 bytes, reading delivers the content
        path = self.special.get(os.fspath(path), path)
        real = builtins.open(path, mode, *a, **k)
        if "r" in mode and "b" not in mode:
            return _Reader(self, real, path)
        if "r" in mode and "b" in mode and self.short_read_max:
            return _BinReader(self, real)
        return real

    def open_for_write(self, path, mode="r", *a, **k):
        if "w" in mode or "a" in mode:
            self._park_foreign_thread()
            if self.open_fault is not None:
                name = self.open_fault if self.open_fault in ("EACCES", "EIO", "EINTR", "ESTALE", "EBUSY") else "EACCES"
                self.open_fault = None
                self.sim.faults["sink_open_" + name.lower()] += 1
                self.sim.log.add("open", "fault:" + name, mode)
                exc = PermissionError if name == "EACCES" else OSError
                raise exc(getattr(errno, name), "simulated " + name)
            if self.short_write_max:
                # the same stack builtins.open builds, over a raw layer that writes short
                names = ("buffering", "encoding", "errors", "newline")
                opts = dict(zip(names, a))
                opts.update({n: v for n, v in k.items() if n in names})
                raw = _ShortRaw(path, mode.replace("b", "").replace("t", ""))
                raw._fs = self
                if "b" in mode:
                    real = raw if opts.get("buffering", -1) == 0 else io.BufferedWriter(raw)
                else:
                    real = io.TextIOWrapper(io.BufferedWriter(raw), encoding=opts.get("encoding"), errors=opts.get("errors"),
                                            newline=opts.get("newline"))
            else:
                real = builtins.open(path, mode, *a, **k)
            if "a" in mode:
                self.append_opens += 1
                self.sim.log.add("open", "append")
            else:
                self.sim.log.add("open", "truncate")
            return _Writer(self, real, path)
        return builtins.open(path, mode, *a, **k)


# ---------------------------------------------------------------------------
# the simulator: owns every seam for the duration of one scenario
# ---------------------------------------------------------------------------

CURRENT_SCRATCH = None


def target_kwargs(target):
    """Shaper arguments for a target specification of a scenario document: '_via_file' hands target classes / shape
    maps over as files, '_json' rewrites a fixed shape map in the JSON syntax."""
    t = {k: v for k, v in target.items() if not k.startswith("_")}
    t = json.loads(json.dumps(t))
    if target.get("_json") and "shape_map_raw" in t:
        items = []
        for line in t["shape_map_raw"].split("\n"):
            if line.strip():
                sel, lab = line.rsplit("@", 1)
                items.append({"nodeSelector": sel.strip(), "shapeLabel": lab.strip()})
        t["shape_map_raw"] = json.dumps(items)
        t["shape_map_format"] = "json"
    if target.get("_via_file"):
        global _TARGET_FILES
        _TARGET_FILES += 1
        path = os.path.join(CURRENT_SCRATCH or ".", "target_%d.txt" % _TARGET_FILES)
        if "target_classes" in t:
            with builtins.open(path, "w", encoding="utf-8") as f:
                f.write("\n".join(t.pop("target_classes")) + "\n")
            t["file_target_classes"] = path
        elif "shape_map_raw" in t:
            with builtins.open(path, "w", encoding="utf-8") as f:
                f.write(t.pop("shape_map_raw"))
            t["shape_map_file"] = path
    return t


_TARGET_FILES = 0


class Interleaver(object):
    """Caller tasks that overlap in time.  Every task runs on a real thread, but only the holder of the baton runs; at a
    seam event (a line read, a write, a query, a fetch, a triple delivered by the store) the holder may hand the baton to
    another live task, as the seeded schedule says.  Which task runs is therefore never decided by the operating system:
    one seed is one interleaving, and the list of switches is part of the event log."""
    WAIT_S = 120.0

    def __init__(self, sim, seed, switch_p=0.3, nested_at=None):
        import threading
        self.sim = sim
        self.rng = random.Random("interleave|%s" % (seed,))
        self.switch_p = switch_p
        self.nested_at = nested_at      # event index of task 0 at which every other task runs to completion (no other switch)
        self.cv = threading.Condition()
        self.current = None
        self.alive = []
        self.idents = {}
        self.events = Counter()         # seam events seen per task
        self.switches = 0

    def _is_task_thread(self):
        import threading
        return threading.get_ident() in self.idents

    def _wait_for_baton(self, me):
        import time as _time
        end = _time.monotonic() + self.WAIT_S
        with self.cv:
            while self.current != me:
                left = end - _time.monotonic()
                if left <= 0:
                    raise RuntimeError("interleaver: task %s never got the baton back" % me)
                self.cv.wait(left)

    def yield_point(self, kind):
        import threading
        me = self.idents.get(threading.get_ident())
        if me is None or self.current != me:
            return
        n = self.events[me]
        self.events[me] += 1
        others = [t for t in self.alive if t != me]
        if not others:
            return
        if self.nested_at is not None:
            if me != 0 or n != self.nested_at:
                return
            nxt = others[0]
        else:
            if self.rng.random() >= self.switch_p:
                return
            nxt = self.rng.choice(others)
        self.switches += 1
        self.sim.log.add("switch", me, kind, n, nxt)
        with self.cv:
            self.current = nxt
            self.cv.notify_all()
        self._wait_for_baton(me)

    def run(self, fns):
        """fns: task id -> callable.  Returns task id -> value (or the BaseException a task ended with)."""
        import threading
        results = {}
        order = sorted(fns)
        self.alive = list(order)

        def body(tid):
            try:
                self._wait_for_baton(tid)
                try:
                    results[tid] = fns[tid]()
                except BaseException as e:      # StepCapExceeded included: the caller decides what it means
                    results[tid] = e
            finally:
                with self.cv:
                    if tid in self.alive:
                        self.alive.remove(tid)
                    if self.nested_at is not None:
                        # the interrupted task 0 goes on only when every other task is done
                        rest = [t for t in self.alive if t != 0] or list(self.alive)
                        self.current = rest[0] if rest else None
                    else:
                        self.current = self.rng.choice(self.alive) if self.alive else None
                    self.sim.log.add("task_end", tid, self.current)
                    self.cv.notify_all()
        threads = [threading.Thread(target=body, args=(tid,), daemon=True, name="caller-%s" % tid) for tid in order]
        with self.cv:
            for tid, th in zip(order, threads):
                th.start()
                self.idents[th.ident] = tid
            self.current = 0 if (self.nested_at is not None and 0 in fns) else self.rng.choice(order)
            self.sim.log.add("task_first", self.current)
            self.cv.notify_all()
        for th in threads:
            th.join(self.WAIT_S * 2)
            if th.is_alive():
                raise RuntimeError("interleaver: a task did not finish")
        return results


class Sim(object):
    def __init__(self, scratch):
        global CURRENT_SCRATCH, _TARGET_FILES
        CURRENT_SCRATCH = scratch
        _TARGET_FILES = 0
        self.scratch = scratch
        self.clock = 0.0
        self.log = EventLog()
        self.probes = Counter()
        self.faults = Counter()
        self.fs = SimFS(self)
        self.http = SimHTTP(self)
        self.endpoint = None
        self.interleaver = None     # set by scenarios whose caller tasks overlap in time
        self._saved = None

    def yield_point(self, kind):
        if self.interleaver is not None:
            self.interleaver.yield_point(kind)

    # ---- seams
    def __enter__(self):
        import shexer.io.sparql.query as q
        import shexer.io.line_reader.gz_line_reader as gzr
        import shexer.io.line_reader.file_line_reader as flr
        self._saved_gzip = gzr.gzip
        gzr.gzip = _GzipSeam(self.fs)
        import shexer.utils.factories.triple_yielders_factory as tyf
        self._saved_zipfile = tyf.ZipFile
        tyf.ZipFile = _zip_seam(self.fs)
        import shexer.io.line_reader.xz_line_reader as xzr
        self._saved_xzopen = xzr.xzopen
        xzr.xzopen = _xz_seam(self.fs)
        import shexer.io.shex.formater.shex_serializer as ss
        import shexer.core.instances.abstract_instance_tracker as ait
        import rdflib.parser as rp
        self._saved = {
            "wrapper": q.SPARQLWrapper, "sleep": q.sleep, "urlopen": rp.urlopen,
            "flr_open": flr.__dict__.get("open", None), "ss_open": ss.__dict__.get("open", None),
        }
        sim = self

        def sim_sleep(s):
            sim.clock += s
            sim.log.add("sleep", s)
        q.sleep = sim_sleep
        q.SPARQLWrapper = _NoEndpoint
        rp.urlopen = self.http.urlopen
        flr.open = self.fs.open_for_read
        ss.open = self.fs.open_for_write
        ait._TRACKERS_DISAM_COUNT = 0
        return self

    def set_endpoint(self, ep):
        import shexer.io.sparql.query as q
        self.endpoint = ep
        q.SPARQLWrapper = ep.wrapper_class()

    def __exit__(self, *a):
        import shexer.io.sparql.query as q
        import shexer.io.line_reader.gz_line_reader as gzr
        import shexer.io.line_reader.file_line_reader as flr
        gzr.gzip = self._saved_gzip
        import shexer.utils.factories.triple_yielders_factory as tyf
        tyf.ZipFile = self._saved_zipfile
        import shexer.io.line_reader.xz_line_reader as xzr
        xzr.xzopen = self._saved_xzopen
        import shexer.io.shex.formater.shex_serializer as ss
        import rdflib.parser as rp
        s = self._saved
        q.SPARQLWrapper = s["wrapper"]
        q.sleep = s["sleep"]
        rp.urlopen = s["urlopen"]
        for mod, key in ((flr, "flr_open"), (ss, "ss_open")):
            if s[key] is None:
                mod.__dict__.pop("open", None)
            else:
                mod.open = s[key]
        return False

    # ---- scratch files
    def path(self, name):
        return os.path.join(self.scratch, name)

    def write_file(self, name, data, mode="w"):
        p = self.path(name)
        with builtins.open(p, mode, **({} if "b" in mode else {"encoding": "utf-8", "newline": ""})) as f:
            f.write(data)
        return p

    def write_special_file(self, name, data):
        """a file whose size reads 0 although opening it delivers `data` (text files read through the open() seam only)"""
        content = self.write_file(name + ".content", data)
        p = self.path(name)
        builtins.open(p, "w").close()
        self.fs.special[p] = content
        self.probes["special_zero_size_files"] += 1
        return p


class _NoEndpoint(object):
    def __init__(self, *a, **k):
        raise AssertionError("scenario touched SPARQLWrapper without a simulated endpoint")


# ---------------------------------------------------------------------------
# running sheXer
# ---------------------------------------------------------------------------

class Result(object):
    """Outcome of one API call."""

    def __init__(self, kind, text=None, exc=None, msg=None, groups=None):
        self.kind = kind      # "ok" | "exc"
        self.text = text
        self.exc = exc
        self.msg = msg
        self.groups = groups

    def brief(self):
        if self.kind == "ok":
            return "ok:%s" % (hashlib.sha256((self.text or "").encode("utf-8", "surrogatepass")).hexdigest()[:10])
        return "exc:%s" % self.exc


def new_shaper(kwargs):
    from shexer.shaper import Shaper
    return Shaper(**kwargs)


def call(fn, shaper=None):
    """Run fn(); classify outcome.  StepCapExceeded propagates."""
    from .compare import profile_groups
    try:
        text = fn()
    except StepCapExceeded:
        raise
    except Exception as e:
        return Result("exc", exc=type(e).__name__, msg=str(e)[:200])
    return Result("ok", text=text, groups=profile_groups(shaper) if shaper is not None else None)


def run_once(kwargs, call_kwargs=None):
    """new Shaper(**kwargs).shex_graph(**call_kwargs) -> Result (constructor
    exceptions included)."""
    call_kwargs = dict(call_kwargs or {"string_output": True})
    holder = {}

    def fn():
        holder["sh"] = new_shaper(kwargs)
        return holder["sh"].shex_graph(**call_kwargs)
    from .compare import profile_groups
    try:
        text = fn()
    except StepCapExceeded:
        raise
    except Exception as e:
        return Result("exc", exc=type(e).__name__, msg=str(e)[:200])
    return Result("ok", text=text, groups=profile_groups(holder.get("sh")))
