#!/venv/bin/python
"""CLI:  main.py <ID> quick|thorough [--replay FILE] [--count N] [--workers N] [--no-selftest]

Exit 0 = property held on everything explored (KNOWN-FINDING lines allowed),
exit 1 = VIOLATION line printed, exit 2 = harness error (never a verdict).
"""
import os
import sys

VERIF = os.path.dirname(os.path.dirname(os.path.abspath(__file__)))


def _reexec_if_needed():
    if os.environ.get("DSIM_NO_REEXEC") == "1":
        return
    if os.environ.get("PYTHONHASHSEED") != "0" or os.environ.get("SHEXER_VERIF") != "1":
        env = dict(os.environ)
        env["PYTHONHASHSEED"] = "0"
        env["SHEXER_VERIF"] = "1"
        env["DSIM_NO_REEXEC"] = "1"
        env["PYTHONDONTWRITEBYTECODE"] = "1"
        env["PYTHONUTF8"] = "1"          # files, pipes and default encodings are UTF-8 whatever the caller's locale
        os.execve(sys.executable, [sys.executable] + sys.argv, env)


def main():
    _reexec_if_needed()
    repo = os.environ.get("DSIM_REPO", "/repo")
    # the working tree of /repo is what runs (not an installed copy)
    sys.path[:0] = [repo, VERIF]
    import warnings
    warnings.filterwarnings("ignore")
    import logging
    logging.disable(logging.CRITICAL)
    import shexer
    if not os.path.abspath(shexer.__file__).startswith(os.path.abspath(repo)):
        print("HARNESS-ERROR shexer imported from %s, expected under %s" % (shexer.__file__, repo))
        return 2
    from dsim import engine
    args = sys.argv[1:]
    if len(args) < 1 or args[0] not in engine.PROPS:
        print(__doc__)
        return 2
    pid = args[0]
    tier = os.environ.get("VERIF_TIER") or "quick"
    rest = args[1:]
    if rest and rest[0] in ("quick", "thorough"):
        tier = rest[0]
        rest = rest[1:]
    base = int(os.environ.get("VERIF_SEED", "0") or 0)
    opts = {}
    i = 0
    while i < len(rest):
        if rest[i] == "--replay":
            return engine.replay(pid, rest[i + 1])
        if rest[i] == "--child":
            from dsim.props import c19
            c19.child_main()
            return 0
        if rest[i] == "--selftest-child":
            engine.selftest_child(pid, tier, base, [int(x) for x in rest[i + 1].split(",") if x])
            return 0
        if rest[i] == "--count":
            opts["count"] = int(rest[i + 1]); i += 2; continue
        if rest[i] == "--workers":
            opts["workers"] = int(rest[i + 1]); i += 2; continue
        if rest[i] == "--no-selftest":
            opts["selftest"] = False; i += 1; continue
        print("unknown argument " + rest[i])
        return 2
    return engine.run_check(pid, tier, base, **opts)


if __name__ == "__main__":
    sys.exit(main())
