#!/venv/bin/python
"""Print the markdown table of seeded changes (from seeded/*/meta.json and notes.md) for DESIGN.md;
also fills meta.json's needs_to_manifest from the notes when it is empty."""
import json, os, re
VERIF = os.path.dirname(os.path.dirname(os.path.abspath(__file__)))
rows = []
for name in sorted(os.listdir(os.path.join(VERIF, "seeded"))):
    d = os.path.join(VERIF, "seeded", name)
    mp = os.path.join(d, "meta.json")
    if not os.path.isdir(d) or not os.path.exists(mp):
        continue
    meta = json.load(open(mp))
    notes = open(os.path.join(d, "notes.md")).read()
    lines = [l.strip() for l in notes.split("\n") if l.strip()]
    title = re.sub(r"^#+\s*", "", lines[0])
    title = re.sub(r"^(C\d\d\s*/?\s*)?m\d\s*[-–—:]\s*", "", title, flags=re.I)
    if not meta.get("needs_to_manifest"):
        para = [p for p in re.split(r"\n\s*\n", notes) if re.search(r"manifest|needs", p, re.I)]
        if para:
            meta["needs_to_manifest"] = " ".join(para[0].split())[:500]
            json.dump(meta, open(mp, "w"), indent=1)
    cb = meta["caught_by"]
    rows.append("| %s | %s | %s %s%s | %s |" % (name, title[:110], cb["check"], cb["tier"], (" " + " ".join(cb.get("args", []))) if cb.get("args") else "",
                                              "yes" if cb["exit"] == 1 else "NO (exit %s)" % cb["exit"]))
print("| seeded change | mechanism | caught by | exit 1 |\n|---|---|---|---|")
print("\n".join(rows))
