#!/venv/bin/python
"""Print the rows of DESIGN.md 11.6 from evidence/*.json."""
import json, os
VERIF = os.path.dirname(os.path.dirname(os.path.abspath(__file__)))
print("| property | tier | seeded scenarios | systematic scenarios | library executions | faults fired | fault kinds | distinct event-trace shapes | simulated seconds | scenarios / hour | wall s (16 workers) |")
print("|---|---|---|---|---|---|---|---|---|---|---|")
for p in ("C08", "C09", "C15", "C16", "C18", "C19"):
    d = json.load(open(os.path.join(VERIF, "evidence", p + ".json")))
    c = d["coverage"]
    ff = c.get("faults_fired", {})
    print("| %s | %s | %s | %s | %s | %s | %s | %s | %s | %s | %.0f |" % (
        p, d["tier"], c.get("seeded_scenarios"), c.get("systematic_scenarios"), c.get("shaper_executions"), sum(ff.values()), len(ff),
        c.get("distinct_event_trace_shapes"), c.get("simulated_seconds") if c.get("simulated_seconds") else "no clock in this check",
        c.get("scenarios_per_hour"), d["wall_s"]))
