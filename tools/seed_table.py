#!/venv/bin/python
"""Print the markdown table of seeded changes (from seeded/*/meta.json and notes.md) for DESIGN.md;
also fills meta.json's needs_to_manifest from the notes when it is empty."""
import json, os, re
VERIF = os.path.dirname(os.path.dirname(os.path.abspath(__file__)))
rows = []
# the final regression (tools/seed_regress.py) is the authority on what catches a change on the final code
REG = {}
rp = os.path.join(VERIF, "seeded", "REGRESSION.txt")
if os.path.exists(rp):
    for l in open(rp):
        m = re.match(r"^(\S+)\s+check=(\S+)\s+(\S+)\s+exit=(\S+)\s+expected=(\S+)", l)
        if m:
            REG[m.group(1)] = m.groups()[1:]


def natural(n):
    m = re.match(r"^(C\d+)-r(\d+)-m(\d+)$", n)
    return (m.group(1), int(m.group(2)), int(m.group(3))) if m else (n, 0, 0)


for name in sorted(os.listdir(os.path.join(VERIF, "seeded")), key=natural):
    d = os.path.join(VERIF, "seeded", name)
    mp = os.path.join(d, "meta.json")
    if not os.path.isdir(d) or not os.path.exists(mp):
        continue
    meta = json.load(open(mp))
    notes = open(os.path.join(d, "notes.md")).read()
    lines = [l.strip() for l in notes.split("\n") if l.strip()]
    title = re.sub(r"^#+\s*", "", lines[0])
    title = re.sub(r"^(C\d\d\s*/?\s*)?m\d\s*[-–—:]\s*", "", title, flags=re.I)
    if not meta.get("needs_to_manifest"):
        para = [p for p in re.split(r"\n\s*\n", notes) if re.search(r"manifest|needs", p, re.I)]
        if para:
            meta["needs_to_manifest"] = " ".join(para[0].split())[:500]
            json.dump(meta, open(mp, "w"), indent=1)
    cb = dict(meta["caught_by"])
    if name in REG:
        chk, tier, got, want = REG[name]
        cb["check"], cb["tier"] = chk, tier
        cb["exit"] = 1 if got == "1" else got
    rows.append("| %s | %s | %s %s%s | %s |" % (name, title[:110], cb["check"], cb["tier"], (" " + " ".join(cb.get("args", []))) if cb.get("args") else "",
                                              "yes" if cb["exit"] == 1 else ("superseded by a fix" if cb["exit"] == "superseded" else "NO (exit %s; reason in detect_map.json)" % cb["exit"])))
print("| seeded change | mechanism | caught by | exit 1 |\n|---|---|---|---|")
print("\n".join(rows))
