"""Pristine-process executor for reference ("fresh model") computations.

A worker forks a *zygote* before it has executed anything of sheXer; every request is then served by a
grandchild forked from that zygote, so the computation starts from the interpreter state of a process that has
imported the library and never used it.  Process-global state that the code under test may keep (module-level
memo tables, class attributes, rdflib namespace managers, counters) therefore cannot leak from the Shapers under
test - or from earlier scenarios - into the reference they are compared with.

Everything is synchronous: one request at a time, length-prefixed pickles over two pipes.
"""
import importlib
import os
import pickle
import struct
import traceback


def _write(fd, obj):
    data = pickle.dumps(obj, protocol=pickle.HIGHEST_PROTOCOL)
    os.write(fd, struct.pack("<Q", len(data)))
    off = 0
    while off < len(data):
        off += os.write(fd, data[off:off + (1 << 20)])


def _read_exact(fd, n):
    buf = b""
    while len(buf) < n:
        chunk = os.read(fd, n - len(buf))
        if not chunk:
            raise EOFError("pipe closed")
        buf += chunk
    return buf


def _read(fd):
    n = struct.unpack("<Q", _read_exact(fd, 8))[0]
    return pickle.loads(_read_exact(fd, n))


class Pristine(object):
    def __init__(self):
        self.owner = os.getpid()
        req_r, req_w = os.pipe()
        res_r, res_w = os.pipe()
        pid = os.fork()
        if pid == 0:
            os.close(req_w)
            os.close(res_r)
            try:
                self._zygote(req_r, res_w)
            finally:
                os._exit(0)
        os.close(req_r)
        os.close(res_w)
        self.req_w, self.res_r, self.zygote_pid = req_w, res_r, pid

    @staticmethod
    def _zygote(req_r, res_w):
        while True:
            try:
                req = _read(req_r)
            except EOFError:
                return
            r, w = os.pipe()
            pid = os.fork()
            if pid == 0:
                os.close(r)
                try:
                    mod, fn, args = req
                    out = ("ok", getattr(importlib.import_module(mod), fn)(*args))
                except BaseException:
                    out = ("error", traceback.format_exc())
                try:
                    _write(w, out)
                finally:
                    os._exit(0)
            os.close(w)
            try:
                out = _read(r)
            except EOFError:
                out = ("error", "reference process died without an answer")
            os.close(r)
            os.waitpid(pid, 0)
            _write(res_w, out)

    def call(self, mod, fn, *args):
        _write(self.req_w, (mod, fn, args))
        status, val = _read(self.res_r)
        if status != "ok":
            raise RuntimeError("pristine reference computation failed:\n" + str(val))
        return val

    def close(self):
        try:
            os.close(self.req_w)
            os.close(self.res_r)
            os.waitpid(self.zygote_pid, 0)
        except OSError:
            pass


_INSTANCE = None


def get():
    """The zygote of the current process; created on first use (callers make sure that is before the process has
    run any scenario: engine.ensure_pristine())."""
    global _INSTANCE
    if _INSTANCE is None or _INSTANCE.owner != os.getpid():
        _INSTANCE = Pristine()
    return _INSTANCE


def call(mod, fn, *args):
    return get().call(mod, fn, *args)
