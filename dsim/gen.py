"""Workload generator: abstract RDF graphs and Shaper option sets.

Everything here is *workload*, not environment: graphs and configurations any
technique needs.  All values are JSON-able (lists / dicts / strings) so that a
scenario document can be written out as a replay file.

Term encoding:  ["i", iri] | ["b", "_:label"] | ["l", lexical, datatype|None, lang|None]
Triple encoding: [s, p, o]
"""
import random

RDF_NS = "http://www.w3.org/1999/02/22-rdf-syntax-ns#"
RDF_TYPE = RDF_NS + "type"
XSD = "http://www.w3.org/2001/XMLSchema#"
EX = "http://ex.org/"
EX_DEEP = "http://ex.org/ns/"
EX_DEEPER = "http://ex.org/ns/deep/"
OTHER = "http://other.org/v#"

BASE_NS = {
    EX: "ex",
    XSD: "xsd",
    RDF_NS: "rdf",
    "http://www.w3.org/2000/01/rdf-schema#": "rdfs",
    "http://www.w3.org/XML/1998/namespace/": "xml",
}


def T(x):
    """nested lists -> nested tuples (hashable)"""
    if isinstance(x, list):
        return tuple(T(y) for y in x)
    return x


def L(x):
    if isinstance(x, tuple):
        return [L(y) for y in x]
    return x


def iri(s):
    return ("i", s)


def lit(lex, dt=None, lang=None):
    return ("l", lex, dt, lang)


# "abc" and "abc"^^xsd:string are one RDF term; writers spell it the second way while this is set (see explicit_string_dt)
EXPLICIT_STRING_DT = [False]


class explicit_string_dt(object):
    """with gen.explicit_string_dt(flag): documents written inside spell plain strings with their datatype"""

    def __init__(self, on=True):
        self.on = on

    def __enter__(self):
        self.prev = EXPLICIT_STRING_DT[0]
        EXPLICIT_STRING_DT[0] = bool(self.on)

    def __exit__(self, *a):
        EXPLICIT_STRING_DT[0] = self.prev


def term_nt(t):
    if t[0] == "i":
        return "<%s>" % t[1]
    if t[0] == "b":
        return t[1]
    _, lex, dt, lang = t
    if lang:
        return '"%s"@%s' % (lex, lang)
    if (dt is None or dt == XSD + "string") and not EXPLICIT_STRING_DT[0]:
        return '"%s"' % lex
    if dt is None:
        dt = XSD + "string"
    return '"%s"^^<%s>' % (lex, dt)


def triple_nt(tr):
    return "%s %s %s .\n" % (term_nt(tr[0]), term_nt(tr[1]), term_nt(tr[2]))


def to_nt(triples, comments=0):
    """`comments` > 0: a comment line and a blank line (both valid N-Triples) after every `comments`-th statement"""
    if not comments:
        return "".join(triple_nt(t) for t in triples)
    out = []
    for i, t in enumerate(triples):
        out.append(triple_nt(t))
        if i % comments == 0:
            out.append("# note alpha\n\n")
    return "".join(out)


def to_tsv(triples):
    return "".join("%s\t%s\t%s\n" % (term_nt(t[0]), term_nt(t[1]), term_nt(t[2])) for t in triples)


def to_rdflib_term(t):
    import rdflib
    if t[0] == "i":
        return rdflib.URIRef(t[1])
    if t[0] == "b":
        return rdflib.BNode(t[1][2:])
    _, lex, dt, lang = t
    if lang:
        return rdflib.Literal(lex, lang=lang)
    if dt is None or dt == XSD + "string":
        return rdflib.Literal(lex)
    return rdflib.Literal(lex, datatype=rdflib.URIRef(dt))


def to_rdflib_graph(triples, cls=None):
    import rdflib
    g = (cls or rdflib.Graph)()
    for s, p, o in triples:
        g.add((to_rdflib_term(s), to_rdflib_term(p), to_rdflib_term(o)))
    return g


CUSTOM_TYPE = EX + "isA"


def classes_of(triples, type_prop=RDF_TYPE):
    return sorted({t[2][1] for t in triples if t[1][1] == type_prop and t[2][0] == "i"})


def instances_of(triples, cls, type_prop=RDF_TYPE):
    return [t[0] for t in triples if t[1][1] == type_prop and t[2] == ("i", cls)]


def ensure_class(triples, type_prop=RDF_TYPE):
    """at least one typing triple"""
    if classes_of(triples, type_prop):
        return triples
    return sorted(set(triples) | {(iri(EX + "n0"), iri(type_prop), iri(EX + "C0"))}, key=repr)


def retype(triples, type_prop):
    """the same graph with another instantiation property"""
    if type_prop == RDF_TYPE:
        return triples
    return sorted({(s, iri(type_prop) if p[1] == RDF_TYPE else p, o) for (s, p, o) in triples}, key=repr)


def canon(triples):
    return sorted({T(t) for t in triples}, key=repr)


# ---------------------------------------------------------------------------
# graphs
# ---------------------------------------------------------------------------

def _value(rng, kind, nodes, class_nodes=None):
    if kind == "node":
        return rng.choice(class_nodes if class_nodes else nodes)
    if kind == "str":
        r = rng.random()
        if r < 0.03:
            return lit("", XSD + "string")      # the empty string is a value too
        if r < 0.06:
            # a long multi-byte value: byte offsets and character offsets drift apart by more than a line
            return lit("\u6771\u4eac\u90fd" * 25 + str(rng.randrange(5)), XSD + "string")
        if r < 0.15:     # strings with blanks and non-ASCII characters (readers, codecs and sinks must agree on them)
            return lit(rng.choice(["caf\u00e9 %d", "\u6771\u4eac %d", "na\u00efve v%d", "two words %d"]) % rng.randrange(10), XSD + "string")
        if r < 0.20:     # text that mentions a prefixed name (the datatype is what follows the closing quote, nothing else)
            return lit(rng.choice(["see rdf:type %d", "geo:lat %d", "Stadt: B%d", "an xsd:int %d"]) % rng.randrange(10), XSD + "string")
        return lit("v%d" % rng.randrange(40), XSD + "string")
    if kind == "int":
        return lit(str(rng.randrange(-15, 100)), XSD + "integer")      # negative values too
    if kind == "lang":
        return lit("w%d" % rng.randrange(40), None, rng.choice(["en", "es", "en", "es", "en-GB", "es-419", "de-CH-1996"]))
    if kind == "date":
        return lit("2020-01-0%d" % rng.randrange(1, 9), XSD + "date")
    if kind == "iri":   # an IRI that is not an instance of anything
        return iri(EX + "ext%d" % rng.randrange(6))
    if kind == "cdt2":  # lexical forms containing 'dt:' / 'geo:' under a custom datatype (sheXer's readers used to look for
        # these substrings in the whole token; fixed in /repo 8d83462)
        return lit(rng.choice(["Stadt: Berlin", "geo: 4 5", "5", "plain"]), EX + "dt/km")
    if kind == "cdt":   # custom datatype; some lexical forms hold characters str.splitlines() would cut at
        return lit(rng.choice(["5", "7.5", "x\u2028y", "a\u0085b", "12 km"]), EX + "dt/km")
    if kind == "iri2":  # IRIs with another scheme than http(s)
        return iri(rng.choice(["urn:ex:u%d", "mailto:u%d@ex.org"]) % rng.randrange(4))
    raise ValueError(kind)


def gen_graph(rng, n_nodes=8, n_classes=3, n_props=4, bnodes=False,
              kinds=("node", "str", "int", "lang", "date", "iri"),
              prop_namespaces=(EX,), multi_class=True, density=0.6, twins=0.06, meta=0.12, odd_classes=0.1, same_local_classes=0.0, clash_props=0.0, urn_nodes=0.0):
    """A general graph: nodes with 0..2 classes, each (node, prop) present with
    probability `density`, 1..3 values of one randomly chosen kind."""
    classes = [EX + "C%d" % i for i in range(n_classes)]
    if rng.random() < odd_classes:
        # valid class IRIs whose local name is not a plain word (shape labels are derived from it)
        classes = [EX + rng.choice(["C%d,x", "Cafe\u0301%d"]) % i for i in range(n_classes)]    # comma; 'e' + combining acute (not NFC)
    elif n_classes >= 2 and rng.random() < odd_classes / 2:
        classes[1] = EX + "c0"      # two classes whose IRIs differ only in letter case (C0 / c0)
    if same_local_classes and n_classes >= 2 and rng.random() < same_local_classes:
        # two classes of different vocabularies that share their local name (foaf:Person / schema:Person)
        classes[1] = OTHER + classes[0][len(EX):]
    props = []
    for i in range(n_props):
        ns = prop_namespaces[i % len(prop_namespaces)]
        props.append(ns + "p%d" % i)
    if clash_props and rng.random() < clash_props:
        # the same local name in two vocabularies (ex:p0 and oth:p0)
        props.append((OTHER if props[0].startswith(EX) else EX) + props[0][max(props[0].rfind("/"), props[0].rfind("#")) + 1:])
    nodes = []
    colon_names = rng.random() < 0.1        # local names with a ':' inside (legal in Turtle prefixed names too)
    for i in range(n_nodes):
        if bnodes and rng.random() < 0.3:
            nodes.append(("b", "_:b%d" % i))
        elif urn_nodes and rng.random() < urn_nodes:
            nodes.append(iri("urn:ex:node:%d" % i))      # instances named with another scheme than http(s)
        else:
            nodes.append(iri(EX + ("item:%d" % i if colon_names else "n%d" % i)))
    triples = set()
    for n in nodes:
        k = rng.choice([0, 1, 1, 1, 2, 2, 3]) if multi_class else rng.choice([0, 1, 1, 1])
        for c in rng.sample(classes, min(k, len(classes))):
            triples.add((n, iri(RDF_TYPE), iri(c)))
    # per property a dominant kind so that shapes are not pure noise
    dom = {p: rng.choice(kinds) for p in props}
    for n in nodes:
        for p in props:
            if rng.random() < density:
                m = rng.choice([1, 1, 1, 2, 3])
                kind = dom[p] if rng.random() < 0.7 else rng.choice(kinds)
                for _ in range(m):
                    # mostly one kind per (node, property), sometimes mixed kinds
                    k2 = kind if rng.random() < 0.8 else rng.choice(kinds)
                    triples.add((n, iri(p), _value(rng, k2, nodes)))
                if "int" in kinds and "str" in kinds and rng.random() < twins:
                    # two objects with the same characters and a different nature
                    lex = str(rng.randrange(100))
                    triples.add((n, iri(p), lit(lex, XSD + "integer")))
                    triples.add((n, iri(p), lit(lex, XSD + "string")))
    if rng.random() < meta and props and not bnodes:
        # metaclass-style data: a class that is itself typed and is the object of ordinary properties
        # (not together with blank nodes: with inverse paths the value set of '^ rdf:type' then lists blank-node
        #  labels, which no relabelling or channel can keep stable - outside what C08/C09 state)
        c = rng.choice(classes)
        triples.add((iri(c), iri(RDF_TYPE), iri(EX + "Meta")))
        for _ in range(rng.randint(1, 2)):
            triples.add((rng.choice(nodes), iri(rng.choice(props)), iri(c)))
    return sorted(triples, key=repr)


def gen_schema_graph(rng, n_nodes=8, n_classes=2, n_props=3, bnodes=False,
                     kinds=("node", "str", "int", "lang", "date")):
    """A schema-consistent graph: every node has exactly one class; every
    instance of a class has the same properties, each with one kind and one
    cardinality; node-valued properties point to instances of one class.  No
    frequency ties between alternative kinds or cardinalities can arise."""
    n_classes = max(1, min(n_classes, n_nodes))
    classes = [EX + "C%d" % i for i in range(n_classes)]
    props = [EX + "p%d" % i for i in range(n_props)]
    nodes = []
    for i in range(n_nodes):
        if bnodes and rng.random() < 0.3:
            nodes.append(("b", "_:b%d" % i))
        else:
            nodes.append(iri(EX + "n%d" % i))
    members = {c: [] for c in classes}
    for i, n in enumerate(nodes):
        members[classes[i % n_classes]].append(n)
    schema = {}
    for c in classes:
        schema[c] = {}
        for p in props:
            if rng.random() < 0.7:
                kind = rng.choice(kinds)
                tgt = rng.choice(classes)
                card = rng.choice([1, 1, 2])
                if kind == "node":
                    card = min(card, len(members[tgt]))
                schema[c][p] = (kind, tgt, card)
    # node-valued properties point to members of one class *of one node kind* (IRI members if there are any),
    # otherwise IRI/BNode alternatives with different cardinalities would tie
    link_targets = {}
    for c in classes:
        iris = [m for m in members[c] if m[0] == "i"]
        link_targets[c] = iris if iris else members[c]
    for c in classes:
        for p in list(schema[c]):
            kind, tgt, card = schema[c][p]
            if kind == "node":
                schema[c][p] = (kind, tgt, min(card, len(link_targets[tgt])))
    triples = set()
    for c in classes:
        for n in members[c]:
            triples.add((n, iri(RDF_TYPE), iri(c)))
            for p, (kind, tgt, card) in schema[c].items():
                vals = set()
                guard = 0
                while len(vals) < card and guard < 50:
                    guard += 1
                    if kind == "node":
                        vals.add(rng.choice(link_targets[tgt]))
                    else:
                        vals.add(_value(rng, kind, nodes))
                # literal kinds: make sure exactly `card` distinct values
                j = 0
                while len(vals) < card:
                    j += 1
                    vals.add(lit("z%d" % j, XSD + "string") if kind != "node" else link_targets[tgt][j % len(link_targets[tgt])])
                for v in vals:
                    triples.add((n, iri(p), v))
    return sorted(triples, key=repr)


def gen_big_graph(n_classes, per_class=2, n_props=3):
    """Deterministic graph whose ShExC output has many lines (flush coverage)."""
    triples = []
    for c in range(n_classes):
        for i in range(per_class):
            n = iri(EX + "n%d_%d" % (c, i))
            triples.append((n, iri(RDF_TYPE), iri(EX + "C%d" % c)))
            for p in range(n_props):
                if (i + p + c) % 2 == 0:
                    triples.append((n, iri(EX + "p%d" % p), lit("v", XSD + "string")))
                else:
                    triples.append((n, iri(EX + "p%d" % p), lit(str(c), XSD + "integer")))
    return triples


# ---------------------------------------------------------------------------
# options
# ---------------------------------------------------------------------------

def gen_options(rng, allow_inverse=True, allow_disable_comments=False, swarm=True):
    """Swarm-style draw of Shaper constructor switches (JSON-able dict).
    `instances_report_mode` stays 'mixed' so that comparators can read figures."""
    o = {"instances_report_mode": "mixed"}
    if not swarm:
        return o
    if allow_inverse and rng.random() < 0.4:
        o["inverse_paths"] = True
    if rng.random() < 0.25:
        o["keep_less_specific"] = False
    if rng.random() < 0.2:
        o["all_instances_are_compliant_mode"] = False
    if rng.random() < 0.3:
        o["disable_or_statements"] = False
        if rng.random() < 0.4:
            o["allow_redundant_or"] = True
    if rng.random() < 0.2:
        o["allow_opt_cardinality"] = False
    if rng.random() < 0.2:
        o["disable_exact_cardinality"] = True
    if rng.random() < 0.15:
        o["discard_useless_constraints_with_positive_closure"] = False
    if rng.random() < 0.15:
        o["remove_empty_shapes"] = False
    if rng.random() < 0.15:
        o["decimals"] = rng.choice([0, 1, 2, 4])
    if allow_disable_comments and rng.random() < 0.1:
        o["disable_comments"] = True
    return o


def gen_namespaces(rng, shape_prefix_pressure=0.0):
    ns = dict(BASE_NS)
    # the caller's dictionary does not always declare the vocabularies sheXer itself writes (rdfs:comment, xsd:, rdf:)
    for k in ("http://www.w3.org/2000/01/rdf-schema#", "http://www.w3.org/XML/1998/namespace/", XSD, RDF_NS):
        if rng.random() < 0.2:
            del ns[k]
    if rng.random() < 0.3:
        ns[OTHER] = "oth"
    if rng.random() < 0.3:
        ns[EX_DEEP] = "exn"
    if rng.random() < shape_prefix_pressure:
        # occupy some of sheXer's default shape prefixes
        defaults = ["", "weso-s", "shapes", "w-shapes"]
        k = rng.randint(1, 3)
        # mostly the first k in sheXer's own priority order (so that the next candidate is the k+1-th), sometimes any k
        taken = defaults[:k] if rng.random() < 0.6 else rng.sample(defaults, k)
        for i, p in enumerate(taken):
            ns["http://taken%d.org/" % i] = p
    return ns


def gen_target(rng, triples, allow_shape_map=True, min_classes=1, type_prop=RDF_TYPE):
    classes = classes_of(triples, type_prop)
    if not classes:
        return {"all_classes_mode": True}
    r = rng.random()
    if r < 0.4:
        return {"all_classes_mode": True}
    if r < 0.8 or not allow_shape_map:
        k = rng.randint(min_classes, len(classes))
        t = {"target_classes": rng.sample(classes, k)}
        if rng.random() < 0.12:
            t["_via_file"] = True          # handed over as file_target_classes
        return t
    t = {"shape_map_raw": gen_shape_map(rng, triples, type_prop=type_prop)}
    if rng.random() < 0.25:
        t["_json"] = True                  # the same shape map in the JSON syntax
    if rng.random() < 0.12:
        t["_via_file"] = True              # handed over as shape_map_file
    return t


def gen_shape_map(rng, triples, n_items=None, type_prop=RDF_TYPE):
    classes = classes_of(triples, type_prop)
    iris = sorted({t[0][1] for t in triples if t[0][0] == "i"})
    props = sorted({t[1][1] for t in triples if t[1][1] != type_prop})
    a = "a" if type_prop == RDF_TYPE else "<%s>" % type_prop
    items = []
    n_items = n_items or rng.randint(1, 3)
    for i in range(n_items):
        lab = "<http://sh.org/S%d>" % i
        r = rng.random()
        if r < 0.35 and classes:
            c = rng.choice(classes)
            items.append("SPARQL'select ?s where {?s %s <%s>}'@%s" % (a, c, lab))
        elif r < 0.6 and classes:
            c = rng.choice(classes)
            items.append("{FOCUS %s <%s>}@%s" % (a, c, lab))
        elif r < 0.8 and props:
            p = rng.choice(props)
            items.append("{FOCUS <%s> _}@%s" % (p, lab))
        elif iris:
            items.append("<%s>@%s" % (rng.choice(iris), lab))
    if not items and iris:
        items.append("<%s>@<http://sh.org/S0>" % iris[0])
    return "\n".join(items)


# ---------------------------------------------------------------------------
# hash-seed independent serialisations (rdflib's serialisers follow its store's hash order)
# ---------------------------------------------------------------------------

def _split_iri(i):
    k = max(i.rfind("#"), i.rfind("/"))
    if k < 0:
        k = i.rfind(":")        # urn:..., mailto:...
    return i[:k + 1], i[k + 1:]


def _prefix_table(triples):
    nss = []
    for s, p, o in triples:
        for t in (s, p, o):
            if t[0] == "i":
                ns, _ = _split_iri(t[1])
                if ns and ns not in nss:
                    nss.append(ns)
            elif t[0] == "l" and t[2]:
                ns, _ = _split_iri(t[2])
                if ns not in nss:
                    nss.append(ns)
    return {ns: "n%d" % i for i, ns in enumerate(nss)}


def _pname_ok(local):
    import re
    return re.match(r"^[A-Za-z][A-Za-z0-9_]*(:[A-Za-z0-9_]+)*$", local) is not None


def to_turtle(triples, group=True, use_a=True, dialect="standard", prefixed_custom_datatypes=False, label_salt=0, base=None, full_nonhttp=False, rebind=False, comments=False, stable_labels=False, clash_labels=False, empty_label=None):
    """Turtle with @prefix lines, prefixed names, 'a', ';' and ',' grouping.
    dialect='iter': the subset sheXer's streaming reader documents (closures are
    separate tokens; datatypes written with the xsd: prefix or as full IRIs)."""
    # stable_labels: the labels do not depend on the order of the statements (a permuted document then differs from the
    # original in statement order only)
    table = _prefix_table(triples)
    if stable_labels:
        table = {ns: "n%d" % i for i, ns in enumerate(sorted(table))}     # depends on the set of namespaces only
    if empty_label and empty_label in table:
        table[empty_label] = ""      # '@prefix : <...>' - the label sheXer prefers for its own shapes namespace
    if clash_labels:
        # the document's labels are the caller's usual ones, bound to other namespaces
        pool = ["ex", "xsd", "rdf", "rdfs", "oth", "exn", "xml"]
        table = {ns: pool[(i + 1) % len(pool)] + ("" if i < len(pool) else str(i)) for i, ns in enumerate(table)}
    if label_salt:
        # rotate the labels: the same label then names different namespaces in different documents of one delivery
        keys = list(table)
        table = {ns: "n%d" % ((i + label_salt) % len(keys)) for i, ns in enumerate(keys)}
    if dialect == "iter":
        if XSD in table:
            table[XSD] = "xsd"
        if RDF_NS in table:
            table[RDF_NS] = "rdf"
    if base and any(t[0] == "i" and not t[1].startswith("http") for tr in triples for t in tr):
        base = None     # sheXer's streaming reader resolves every non-http IRI against @base: keep those documents base-free

    def term(t, pred=False):
        if t[0] == "i":
            if pred and use_a and t[1] == RDF_TYPE:
                return "a"
            ns, local = _split_iri(t[1])
            if base and t[1].startswith(base) and _pname_ok(t[1][len(base):]) and ":" not in t[1][len(base):]:
                return "<%s>" % t[1][len(base):]      # relative IRI
            if ns and _pname_ok(local) and not (full_nonhttp and not t[1].startswith("http")):
                return "%s:%s" % (table[ns], local)
            return "<%s>" % t[1]
        if t[0] == "b":
            return t[1]
        _, lex, dt, lang = t
        if lang:
            return '"%s"@%s' % (lex, lang)
        if (dt is None or dt == XSD + "string") and not EXPLICIT_STRING_DT[0]:
            return '"%s"' % lex
        if dt is None:
            dt = XSD + "string"
        ns, local = _split_iri(dt)
        if dialect == "iter" and ns != XSD and not prefixed_custom_datatypes:
            # the streaming reader resolves only xsd:/rdf:/dt:/geo: datatype prefixes; others are written in full
            return '"%s"^^<%s>' % (lex, dt)
        return '"%s"^^%s:%s' % (lex, table[ns], local)
    if rebind and len(triples) >= 4:
        # one document in two sections; the second section re-binds the prefix labels (rotated by one)
        k = len(triples) // 2
        first = to_turtle(triples[:k], group, use_a, dialect, prefixed_custom_datatypes, label_salt, base, full_nonhttp, False, comments)
        second = to_turtle(triples[k:], group, use_a, dialect, prefixed_custom_datatypes, label_salt + 1, None, full_nonhttp, False, comments)
        if base:
            # the second section would inherit @base: only sound if it has no non-http IRIs
            if any(t[0] == "i" and not t[1].startswith("http") for tr in triples[k:] for t in tr):
                first = to_turtle(triples[:k], group, use_a, dialect, prefixed_custom_datatypes, label_salt, None, full_nonhttp, False, comments)
        return first + second
    out = ["@prefix %s: <%s> ." % (p, ns) for ns, p in table.items()]
    if base:
        out.insert(0, "@base <%s> ." % base)
    out.append("")
    if comments:
        out.append("# note alpha")
        out.append("")
    if not group:
        for s, p, o in triples:
            out.append("%s %s %s ." % (term(s), term(p, True), term(o)))
        return "\n".join(out) + "\n"
    by_s = {}
    for s, p, o in triples:
        by_s.setdefault(s, {}).setdefault(p, []).append(o)
    for s, pos in by_s.items():
        parts = []
        for p, objs in pos.items():
            parts.append("%s %s" % (term(p, True), " , ".join(term(o) for o in objs)))
        out.append("%s %s ." % (term(s), " ;\n    ".join(parts)))
    return "\n".join(out) + "\n"


def to_rdfxml(triples):
    table = _prefix_table(triples)
    table.setdefault(RDF_NS, "rdf")
    rdfp = table[RDF_NS]
    lines = ['<?xml version="1.0" encoding="utf-8"?>',
             "<%s:RDF %s>" % (rdfp, " ".join('xmlns:%s="%s"' % (p, ns) for ns, p in table.items()))]
    for s, p, o in triples:
        about = '%s:about="%s"' % (rdfp, s[1]) if s[0] == "i" else '%s:nodeID="%s"' % (rdfp, s[1][2:])
        ns, local = _split_iri(p[1])
        q = "%s:%s" % (table[ns], local)
        if o[0] == "i":
            body = '<%s %s:resource="%s"/>' % (q, rdfp, o[1])
        elif o[0] == "b":
            body = '<%s %s:nodeID="%s"/>' % (q, rdfp, o[1][2:])
        else:
            _, lex, dt, lang = o
            if lang:
                body = '<%s xml:lang="%s">%s</%s>' % (q, lang, lex, q)
            elif dt is None or dt == XSD + "string":
                body = "<%s>%s</%s>" % (q, lex, q)
            else:
                body = '<%s %s:datatype="%s">%s</%s>' % (q, rdfp, dt, lex, q)
        lines.append("  <%s:Description %s>%s</%s:Description>" % (rdfp, about, body, rdfp))
    lines.append("</%s:RDF>" % rdfp)
    return "\n".join(lines) + "\n"


def to_jsonld(triples):
    import json
    nodes = {}
    for s, p, o in triples:
        sid = s[1]
        n = nodes.setdefault(sid, {"@id": sid})
        if o[0] in ("i", "b"):
            v = {"@id": o[1]}
        else:
            _, lex, dt, lang = o
            if lang:
                v = {"@value": lex, "@language": lang}
            elif dt is None or dt == XSD + "string":
                v = {"@value": lex}
            else:
                v = {"@value": lex, "@type": dt}
        n.setdefault(p[1], []).append(v)
    return json.dumps(list(nodes.values()), indent=1)


def gen_aligned_graph(rng, fmt="nt", boundaries=(4096, 8192, 16384, 32768, 65536, 131072), n_classes=5, tail=40, straddle=False):
    """Statements in *document order* such that, serialised one per line in `fmt` (nt | tsv_spo), a line ends exactly
    at every byte offset in `boundaries` (typical block / buffer sizes): the layout a chunked reader must survive.
    With `straddle`, a multi-byte character inside the subject IRI of a statement lies across each boundary instead
    (its first byte is the last byte of the block): the layout a reader that decodes block by block must survive."""
    line = (lambda t: triple_nt(t)) if fmt == "nt" else (lambda t: "%s\t%s\t%s\n" % (term_nt(t[0]), term_nt(t[1]), term_nt(t[2])))

    def pad(i, n):
        return (iri(EX + "n%d" % i), iri(EX + "pad"), lit("x" * n, XSD + "string"))
    triples = []
    offset = 0
    i = 0
    queue = []
    bidx = 0
    pad_base = len(line(pad(999999, 0)).encode())

    def refill(i):
        n = iri(EX + "n%d" % i)
        out = [(n, iri(RDF_TYPE), iri(EX + "C%d" % (i % n_classes)))]
        for p in range(rng.randint(1, 4)):
            k = rng.choice(["str", "int", "node"])
            v = lit("v%d" % rng.randrange(1000), XSD + "string") if k == "str" else \
                lit(str(rng.randrange(1000)), XSD + "integer") if k == "int" else iri(EX + "n%d" % rng.randrange(max(1, i)))
            out.append((n, iri(EX + "p%d" % p), v))
        return out
    while bidx < len(boundaries):
        B = boundaries[bidx]
        if not queue:
            queue = refill(i)
            i += 1
        t = queue[0]
        L = len(line(t).encode())
        pb = len(line(pad(i, 0)).encode())
        if straddle:
            ch = ("\u00e9", "\u6771", "\U0001f600")[bidx % 3]
            node = iri(EX + "Zo" + ch + str(i))
            tt = (node, iri(RDF_TYPE), iri(EX + "C0"))
            off_e = len(("<" + EX + "Zo").encode())
            if offset + L + len(line(tt).encode()) + pb + off_e + 2 > B:
                triples.append(tt)
                offset += len(line(tt).encode())
                need = B - 1 - off_e - offset - pb
                triples.append(pad(i, need))
                offset += pb + need
                st = (node, iri(EX + "p0"), lit("straddle", XSD + "string"))
                triples.append(st)
                offset += len(line(st).encode())
                i += 1
                while bidx < len(boundaries) and boundaries[bidx] <= offset:
                    bidx += 1
                continue
            triples.append(queue.pop(0))
            offset += L
            continue
        if offset + L + pb + 1 > B:
            need = B - offset - pb
            triples.append(pad(i, need))
            offset = B
            bidx += 1
            continue
        triples.append(queue.pop(0))
        offset += L
    for _ in range(tail):
        if not queue:
            queue = refill(i)
            i += 1
        triples.append(queue.pop(0))
    return triples
