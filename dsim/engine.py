"""Batch runner: seeded search, determinism self-test, known-finding triage,
minimisation, replay files, evidence."""
import concurrent.futures as cf
import faulthandler
import hashlib
import importlib
import json
import multiprocessing
import os
import random
import shutil
import subprocess
import sys
import tempfile
import time
import traceback
from collections import Counter

VERIF = os.path.dirname(os.path.dirname(os.path.abspath(__file__)))
REPO = os.environ.get("DSIM_REPO", "/repo")
REPLAY_DIR = os.path.join(VERIF, "replays")
# evidence describes runs against /repo; runs against another copy (DSIM_REPO, used by the seeded-change tools) keep theirs apart
EVIDENCE_DIR = os.path.join(VERIF, "evidence") if REPO == "/repo" else os.path.join(VERIF, "replays", "evidence-other-repo")
KNOWN_FILE = os.path.join(VERIF, "known_findings.json")

PROPS = {"C08": "c08", "C09": "c09", "C15": "c15", "C16": "c16", "C18": "c18", "C19": "c19"}

EXIT_OK, EXIT_VIOLATION, EXIT_HARNESS = 0, 1, 2


def load_prop(pid):
    return importlib.import_module("dsim.props." + PROPS[pid])


def scenario_rng(pid, base, index):
    return random.Random("%s:%s:%s" % (pid, base, index))


def jdigest(obj):
    return hashlib.sha256(json.dumps(obj, sort_keys=True, default=str).encode()).hexdigest()[:16]


# ---------------------------------------------------------------------------
# worker side
# ---------------------------------------------------------------------------

_SCRATCH = {}


def worker_scratch(root):
    pid = os.getpid()
    if pid not in _SCRATCH:
        d = os.path.join(root, "w%d" % pid)
        os.makedirs(d, exist_ok=True)
        _SCRATCH[pid] = d
    return _SCRATCH[pid]


def clean_dir(d):
    for n in os.listdir(d):
        p = os.path.join(d, n)
        if os.path.isdir(p):
            shutil.rmtree(p, ignore_errors=True)
        else:
            try:
                os.unlink(p)
            except OSError:
                pass


def ensure_pristine():
    """fork this process' reference zygote now, i.e. before the process has executed any scenario"""
    from . import pristine
    # import everything a reference computation needs *before* the zygote is forked (imports only: nothing of the
    # library is executed), so that its children do not pay for cold imports
    import shexer.shaper                       # noqa: F401
    import shexer.io.sparql.query              # noqa: F401
    import shexer.io.line_reader.file_line_reader   # noqa: F401
    import shexer.io.shex.formater.shex_serializer  # noqa: F401
    import shexer.io.shacl.formater.shacl_serializer  # noqa: F401
    import rdflib.plugins.sparql               # noqa: F401
    import rdflib.compare                      # noqa: F401
    import rdflib.plugins.parsers.notation3    # noqa: F401
    import rdflib.plugins.parsers.ntriples     # noqa: F401
    import rdflib.plugins.serializers.turtle   # noqa: F401
    import gzip, zipfile, lzma, difflib        # noqa: F401,E401
    pristine.get()


class ScenarioTimeout(BaseException):
    """raised by SIGALRM inside a scenario; BaseException so that no `except Exception` can swallow it"""


SCENARIO_WALL = {"quick": 120, "thorough": 1200}
_TIER = {"tier": "quick"}


def execute_scenario(mod, scenario, scratch_root):
    """Run one scenario.  A scenario that does not return within a generous wall-clock bound (normal ones take
    milliseconds to a few seconds) is reported as a termination violation: the simulated system hung (an endless
    loop in the code under test), which is different from a harness failure."""
    import signal
    import threading
    scratch = worker_scratch(scratch_root)
    clean_dir(scratch)
    limit = getattr(mod, "SCENARIO_WALL", SCENARIO_WALL)[_TIER["tier"]]
    use_alarm = threading.current_thread() is threading.main_thread()

    def on_alarm(signum, frame):
        raise ScenarioTimeout()
    if use_alarm:
        old = signal.signal(signal.SIGALRM, on_alarm)
        signal.alarm(limit)
    try:
        return mod.execute(scenario, scratch)
    except ScenarioTimeout:
        tb = traceback.format_exc().strip().split("\n")
        where = [l.strip() for l in tb if l.strip().startswith("File ")][-4:]
        return {"violations": [{"oracle": "termination", "klass": "wall_timeout", "sig": None,
                                "detail": {"seconds": limit, "innermost_frames": where}}],
                "probes": {"scenario_wall_timeout": 1}, "faults": {}, "sim_seconds": 0.0, "trace_shape": None,
                "log_digest": "timeout", "verdict_digest": "timeout", "out_digest": None, "nontrivial": False, "runs": 0}
    finally:
        if use_alarm:
            signal.alarm(0)
            signal.signal(signal.SIGALRM, old)


def _summarise(index, scenario, out, keep_scenario=False):
    s = {
        "index": index,
        "scen_digest": jdigest(scenario),
        "log_digest": out.get("log_digest"),
        "verdict": out.get("verdict_digest"),
        "violations": out.get("violations", []),
        "probes": out.get("probes", {}),
        "faults": out.get("faults", {}),
        "sim_seconds": out.get("sim_seconds", 0.0),
        "trace_shape": out.get("trace_shape"),
        "out_digest": out.get("out_digest"),
        "nontrivial": bool(out.get("nontrivial")),
        "runs": out.get("runs", 1),
        "extra": out.get("extra", {}),
    }
    if keep_scenario or s["violations"]:
        s["scenario"] = scenario
    return s


class Agg(object):
    """Aggregated coverage of many scenarios (kept small: sets of short digests and counters)."""

    def __init__(self):
        self.n = 0
        self.probes = Counter()
        self.faults = Counter()
        self.sim_seconds = 0.0
        self.runs = 0
        self.shapes = set()
        self.outs = set()
        self.nontrivial = set()

    def add(self, s):
        self.n += 1
        self.probes.update(s["probes"])
        self.faults.update(s["faults"])
        self.sim_seconds += s["sim_seconds"]
        self.runs += s["runs"]
        if s["trace_shape"]:
            self.shapes.add(s["trace_shape"])
        if s["out_digest"]:
            self.outs.add(s["out_digest"])
        if s["nontrivial"]:
            self.nontrivial.add(s["scen_digest"])
            for d in (s.get("extra") or {}).get("nontrivial_case_digests", []):
                self.nontrivial.add(d)

    def merge(self, o):
        self.n += o.n
        self.probes.update(o.probes)
        self.faults.update(o.faults)
        self.sim_seconds += o.sim_seconds
        self.runs += o.runs
        self.shapes |= o.shapes
        self.outs |= o.outs
        self.nontrivial |= o.nontrivial


class Batch(object):
    def __init__(self):
        self.agg = Agg()
        self.detail = {}         # index -> summary (self-test subset, samples)
        self.violating = []      # summaries with violations (scenario attached)
        self.harness_errors = []

    def absorb(self, part):
        self.agg.merge(part["agg"])
        self.detail.update(part["detail"])
        self.violating.extend(part["violating"])
        self.harness_errors.extend(part["harness_errors"])


def _chunk_task(args):
    pid, tier, base, indices, scratch_root, keep, per_timeout = args
    part = {"agg": Agg(), "detail": {}, "violating": [], "harness_errors": []}
    try:
        mod = load_prop(pid)
        known = load_known()
        ensure_pristine()
    except Exception:
        part["harness_errors"] = [{"index": i, "harness_error": traceback.format_exc()} for i in indices]
        return part
    _TIER["tier"] = tier
    per_timeout = max(per_timeout, getattr(mod, "SCENARIO_WALL", SCENARIO_WALL)[tier] + 120)
    for i in indices:
        faulthandler.dump_traceback_later(per_timeout, exit=True)
        try:
            scenario = mod.generate(scenario_rng(pid, base, i), tier, i)
            out = execute_scenario(mod, scenario, scratch_root)
            s = _summarise(i, scenario, out, keep_scenario=(i in keep))
            part["agg"].add(s)
            if s["violations"]:
                if i not in keep and all(v.get("sig") and (pid, v.get("sig")) in known for v in s["violations"]):
                    s = dict(s)
                    s.pop("scenario", None)      # known findings are only counted: no need to ship the document
                part["violating"].append(s)
            if i in keep:
                part["detail"][i] = s
        except Exception:
            part["harness_errors"].append({"index": i, "harness_error": traceback.format_exc()})
        finally:
            faulthandler.cancel_dump_traceback_later()
    return part


def run_indices(pid, tier, base, indices, workers, scratch_root, keep=(), chunk=8, per_timeout=300,
                wall_budget=None):
    """Run scenarios `indices`; returns a Batch (aggregates + details for `keep` + violating summaries)."""
    indices = list(indices)
    chunks = [indices[i:i + chunk] for i in range(0, len(indices), chunk)]
    keep = set(keep)
    batch = Batch()
    ctx = multiprocessing.get_context("fork")
    done = 0
    with cf.ProcessPoolExecutor(max_workers=workers, mp_context=ctx) as ex:
        futs = [ex.submit(_chunk_task, (pid, tier, base, c, scratch_root, keep, per_timeout)) for c in chunks]
        try:
            for f in cf.as_completed(futs, timeout=wall_budget):
                batch.absorb(f.result())
                done += 1
                if sum(1 for s in batch.violating for v in s["violations"] if v["klass"] == "wall_timeout") >= 3:
                    # the simulated system hangs again and again: enough evidence, do not sit out the rest
                    for g in futs:
                        g.cancel()
                    for proc in list(getattr(ex, "_processes", {}).values()):
                        proc.terminate()
                    break
        except cf.TimeoutError:
            for f in futs:
                f.cancel()
            if any(v["klass"] == "wall_timeout" for s in batch.violating for v in s["violations"]):
                for proc in list(getattr(ex, "_processes", {}).values()):
                    proc.terminate()
            else:
                raise HarnessError("wall budget of %ss exceeded after %d/%d chunks" % (wall_budget, done, len(chunks)))
        except cf.process.BrokenProcessPool:
            raise HarnessError("a worker process died (see stderr for a faulthandler dump)")
    batch.violating.sort(key=lambda s: repr(s["index"]))
    return batch


class HarnessError(Exception):
    pass


# ---------------------------------------------------------------------------
# known findings
# ---------------------------------------------------------------------------

def load_known():
    if not os.path.exists(KNOWN_FILE):
        return {}
    with open(KNOWN_FILE) as f:
        data = json.load(f)
    out = {}
    for e in data.get("findings", []):
        if e.get("status", "open") == "open":
            out[(e["property"], e["signature"])] = e
    return out


# ---------------------------------------------------------------------------
# minimisation (ddmin over the scenario document)
# ---------------------------------------------------------------------------

def violation_classes(out):
    return {(v["oracle"], v["klass"], v.get("sig")) for v in out.get("violations", [])}


def minimise(mod, scenario, target, scratch_root, budget=300, deadline=None):
    """Greedy delta-debugging: keep a candidate iff the same (oracle, class,
    signature) still fails."""
    best = scenario
    tries = 0
    improved = True
    while improved and tries < budget:
        improved = False
        for cand in mod.shrink(best):
            if tries >= budget or (deadline and time.time() > deadline):
                return best, tries
            tries += 1
            try:
                out = execute_scenario(mod, cand, scratch_root)
            except Exception:
                continue
            if target in violation_classes(out):
                best = cand
                improved = True
                break
    return best, tries


def generic_shrink(scenario, list_keys=("graph", "ops", "faults"), dict_keys=("options",), extra=None):
    """Yield smaller variants of a scenario document."""
    import copy
    for k in list_keys:
        xs = scenario.get(k)
        if not isinstance(xs, list) or not xs:
            continue
        n = len(xs)
        size = n // 2
        while size >= 1:
            for start in range(0, n, size):
                c = copy.deepcopy(scenario)
                c[k] = xs[:start] + xs[start + size:]
                if len(c[k]) < n:
                    yield c
            size //= 2
    for k in dict_keys:
        d = scenario.get(k)
        if not isinstance(d, dict):
            continue
        for key in sorted(d):
            if key == "instances_report_mode":
                continue
            c = copy.deepcopy(scenario)
            del c[k][key]
            yield c
    if extra:
        for c in extra(scenario):
            yield c


# ---------------------------------------------------------------------------
# replay
# ---------------------------------------------------------------------------

def write_replay(pid, base, index, scenario, violation, out, minimised_from=None, tries=0):
    os.makedirs(REPLAY_DIR, exist_ok=True)
    path = os.path.join(REPLAY_DIR, "%s-seed%s-i%s-%s.json" % (pid, base, index, jdigest(scenario)[:6]))
    doc = {
        "property": pid, "seed": base, "index": index,
        "oracle": violation["oracle"], "klass": violation["klass"], "sig": violation.get("sig"),
        "detail": violation.get("detail"),
        "log_digest": out.get("log_digest"),
        "minimised": minimised_from is not None, "shrink_executions": tries,
        "original_scenario_digest": minimised_from,
        "scenario": scenario,
        "replay_cmd": "bin/check %s --replay %s" % (pid, path),
    }
    with open(path, "w") as f:
        # no sort_keys: dictionaries such as the namespaces keep their insertion order, which sheXer's output follows
        json.dump(doc, f, indent=1, default=str)
    return path


def replay(pid, path):
    mod = load_prop(pid)
    ensure_pristine()
    with open(path) as f:
        doc = json.load(f)
    root = tempfile.mkdtemp(prefix="dsim-replay-")
    try:
        out = execute_scenario(mod, doc["scenario"], root)
    finally:
        shutil.rmtree(root, ignore_errors=True)
    target = (doc["oracle"], doc["klass"], doc.get("sig"))
    classes = violation_classes(out)
    print("replay %s: violations now: %s" % (path, sorted(classes, key=repr)))
    for v in out.get("violations", []):
        print("  oracle=%s class=%s sig=%s detail=%s" % (v["oracle"], v["klass"], v.get("sig"), json.dumps(v.get("detail"), default=str)[:600]))
    same = target in classes
    same_log = (out.get("log_digest") == doc.get("log_digest"))
    print("reproduced=%s same_event_log=%s" % (same, same_log))
    if same:
        print("VIOLATION property=%s replay=%s" % (pid, path))
        return EXIT_VIOLATION
    return EXIT_OK


# ---------------------------------------------------------------------------
# determinism self-test
# ---------------------------------------------------------------------------

def selftest_child(pid, tier, base, indices):
    """Executed in a fresh interpreter (possibly another PYTHONHASHSEED): print
    scenario digests, verdicts and log digests."""
    mod = load_prop(pid)
    ensure_pristine()
    root = tempfile.mkdtemp(prefix="dsim-self-")
    res = {}
    try:
        for i in indices:
            scenario = mod.generate(scenario_rng(pid, base, i), tier, i)
            out = execute_scenario(mod, scenario, root)
            res[str(i)] = [jdigest(scenario), out.get("log_digest"), out.get("verdict_digest"),
                           sorted(violation_classes(out), key=repr)]
    finally:
        shutil.rmtree(root, ignore_errors=True)
    print("SELFTEST " + json.dumps(res, default=str))


def determinism_selftest(pid, mod, tier, base, detail, n, scratch_root, workers):
    """(1) rerun n scenarios at another worker count / chunking: event-log digests
    must match the main batch.  (2) fresh interpreter under another harness
    PYTHONHASHSEED: identical scenario documents and verdicts (byte digests of
    sheXer output may differ there for hash-sensitive inputs -- C19's subject)."""
    by_index = dict(detail)
    idx = sorted(by_index)[:n]
    if not idx:
        return {"ok": True, "n": 0}
    again = run_indices(pid, tier, base, list(reversed(idx)), max(2, workers // 3), scratch_root, keep=idx, chunk=3)
    mism = []
    for e in again.harness_errors:
        mism.append((e["index"], "harness_error"))
    for i, s in again.detail.items():
        a = by_index[i]
        if (a["scen_digest"], a["log_digest"], a["verdict"]) != (s["scen_digest"], s["log_digest"], s["verdict"]):
            mism.append((i, "rerun differs"))
    hs = getattr(mod, "SELFTEST_HASHSEEDS", ["0", "4242"])
    fresh = {}
    for h in hs:
        env = dict(os.environ)
        env["PYTHONHASHSEED"] = h
        env["DSIM_NO_REEXEC"] = "1"
        cmd = [sys.executable, os.path.join(VERIF, "dsim", "main.py"), pid, tier, "--selftest-child",
               ",".join(str(i) for i in idx[:max(4, n // 4)])]
        env["VERIF_SEED"] = str(base)
        p = subprocess.run(cmd, env=env, capture_output=True, text=True, timeout=1800)
        line = [l for l in p.stdout.splitlines() if l.startswith("SELFTEST ")]
        if p.returncode != 0 or not line:
            mism.append(("hashseed=" + h, "child failed: " + p.stderr[-400:]))
            continue
        fresh[h] = json.loads(line[0][len("SELFTEST "):])
    strict_h = hs[0]
    for h, res in fresh.items():
        for i, (sd, ld, vd, vc) in res.items():
            a = by_index[int(i)]
            if sd != a["scen_digest"]:
                mism.append((i, "scenario document differs under PYTHONHASHSEED=%s" % h))
            if h == strict_h:
                if (ld, vd) != (a["log_digest"], a["verdict"]):
                    mism.append((i, "fresh interpreter (same hash seed) differs"))
            else:
                va = sorted([list(x) for x in {(v["oracle"], v["klass"], v.get("sig")) for v in a["violations"]}], key=repr)
                if [list(x) for x in vc] != va:
                    mism.append((i, "verdict differs under PYTHONHASHSEED=%s" % h))
    return {"ok": not mism, "n": len(idx), "hashseeds": hs, "mismatches": mism[:10]}


# ---------------------------------------------------------------------------
# main check
# ---------------------------------------------------------------------------

def run_check(pid, tier, base, workers=None, count=None, selftest=True):
    t0 = time.time()
    mod = load_prop(pid)
    ensure_pristine()
    _TIER["tier"] = tier
    workers = workers or min(16, os.cpu_count() or 4)
    n = count if count is not None else mod.COUNTS[tier]
    scratch_root = tempfile.mkdtemp(prefix="dsim-%s-" % pid)
    known = load_known()
    exit_code = EXIT_OK
    try:
        print("dsim %s tier=%s VERIF_SEED=%s scenarios=%d workers=%d PYTHONHASHSEED=%s" % (
            pid, tier, base, n, workers, os.environ.get("PYTHONHASHSEED")), flush=True)
        n_self = mod.SELFTEST_N[tier] if selftest else 0
        keep = set(range(0, n, max(1, n // 4))) | set(range(min(n, n_self)))
        batch = run_indices(pid, tier, base, range(n), workers, scratch_root, keep=keep,
                            chunk=getattr(mod, "CHUNK", 8), wall_budget=mod.WALL[tier])
        # extra systematic sub-checks (fault-position sweeps, big outputs, ...); skipped when the seeded
        # batch already found an unlisted violation, so that a defect which also makes the big scenarios
        # crawl is reported as a violation instead of a wall-time harness error
        extra = Batch()
        seeded_unknown = any(not (v.get("sig") and (pid, v.get("sig")) in known)
                             for s in batch.violating for v in s["violations"])
        if hasattr(mod, "extra_scenarios") and not seeded_unknown:
            extras = list(mod.extra_scenarios(tier, base))
            if extras:
                extra = run_extra(pid, mod, extras, workers, scratch_root, mod.WALL[tier])
        herr = batch.harness_errors + extra.harness_errors
        if herr:
            print("HARNESS-ERROR in %d scenario(s); first:\n%s" % (len(herr), herr[0]["harness_error"]))
            return EXIT_HARNESS
        # ---- triage
        known_hits = Counter()
        unknown = []
        for s in batch.violating + extra.violating:
            for v in s["violations"]:
                key = (pid, v.get("sig"))
                if v.get("sig") and key in known:
                    known_hits[v["sig"]] += 1
                else:
                    unknown.append((s, v))
        # ---- determinism self-test.  Only when nothing unlisted was found: a defect that keeps process-global
        # state makes runs depend on what ran before in the same worker, and must be reported as the violation it
        # is, not as a harness error.
        st = {"ok": True, "n": 0, "skipped": True}
        if selftest and not unknown:
            detail = {i: s for i, s in batch.detail.items() if i < n_self}
            st = determinism_selftest(pid, mod, tier, base, detail, n_self, scratch_root, workers)
            if not st["ok"]:
                print("HARNESS-ERROR determinism self-test failed: %s" % st["mismatches"])
                return EXIT_HARNESS
        elif selftest:
            st = {"ok": True, "n": 0, "skipped": "unlisted violations found; the self-test is run only on clean batches"}
        for sig, cnt in sorted(known_hits.items()):
            e = known[(pid, sig)]
            print("KNOWN-FINDING: property=%s %s [%s] (%d scenario hits this run)" % (pid, e["what_fails"], sig, cnt))
        if unknown:
            exit_code = EXIT_VIOLATION
            seen = set()
            deadline = time.time() + mod.SHRINK_WALL[tier]
            for s, v in unknown:
                cls = (v["oracle"], v["klass"], v.get("sig"))
                if cls in seen:
                    continue
                seen.add(cls)
                scen = s["scenario"]
                if v["klass"] == "wall_timeout":
                    small, tries = scen, 0        # every re-execution would take the whole bound again
                else:
                    small, tries = minimise(mod, scen, cls, scratch_root, budget=300, deadline=deadline)
                out = execute_scenario(mod, small, scratch_root)
                vv = [x for x in out["violations"] if (x["oracle"], x["klass"], x.get("sig")) == cls]
                vv = vv[0] if vv else v
                path = write_replay(pid, base, s["index"], small, vv, out,
                                    minimised_from=jdigest(scen), tries=tries)
                print("violation: oracle=%s class=%s sig=%s index=%s detail=%s" % (
                    v["oracle"], v["klass"], v.get("sig"), s["index"], json.dumps(vv.get("detail"), default=str)[:500]))
                print("VIOLATION property=%s replay=%s" % (pid, path), flush=True)
                if len(seen) >= 8:
                    break
        wall = time.time() - t0
        write_evidence(pid, mod, tier, base, batch, extra, st, known_hits, unknown, wall, workers)
        print("%s %s: %d scenarios (+%d systematic), %d known-finding hits, %d unlisted violations, %.1fs" % (
            pid, tier, batch.agg.n, extra.agg.n, sum(known_hits.values()), len(unknown), wall))
        return exit_code
    except HarnessError as e:
        print("HARNESS-ERROR %s" % e)
        return EXIT_HARNESS
    finally:
        shutil.rmtree(scratch_root, ignore_errors=True)


def _extra_task(args):
    pid, items, scratch_root, keep_tags = args
    mod = load_prop(pid)
    ensure_pristine()
    part = {"agg": Agg(), "detail": {}, "violating": [], "harness_errors": []}
    for (tag, scenario) in items:
        faulthandler.dump_traceback_later(getattr(mod, "SCENARIO_WALL", SCENARIO_WALL)[_TIER["tier"]] + 120, exit=True)
        try:
            out = execute_scenario(mod, scenario, scratch_root)
            s = _summarise(tag, scenario, out, keep_scenario=(tag in keep_tags))
            s["systematic"] = True
            part["agg"].add(s)
            if s["violations"]:
                part["violating"].append(s)
            if tag in keep_tags:
                part["detail"][tag] = s
        except Exception:
            part["harness_errors"].append({"index": tag, "harness_error": traceback.format_exc()})
        finally:
            faulthandler.cancel_dump_traceback_later()
    return part


def run_extra(pid, mod, extras, workers, scratch_root, wall_budget):
    chunk = max(1, min(8, len(extras) // (workers * 2) or 1))
    chunks = [extras[i:i + chunk] for i in range(0, len(extras), chunk)]
    keep_tags = {extras[0][0], extras[len(extras) // 2][0]}
    ctx = multiprocessing.get_context("fork")
    batch = Batch()
    with cf.ProcessPoolExecutor(max_workers=workers, mp_context=ctx) as ex:
        futs = [ex.submit(_extra_task, (pid, c, scratch_root, keep_tags)) for c in chunks]
        try:
            for f in cf.as_completed(futs, timeout=wall_budget):
                batch.absorb(f.result())
        except cf.TimeoutError:
            raise HarnessError("wall budget exceeded in systematic sub-check")
        except cf.process.BrokenProcessPool:
            raise HarnessError("a worker died in systematic sub-check")
    batch.violating.sort(key=lambda s: repr(s["index"]))
    return batch


# ---------------------------------------------------------------------------
# evidence
# ---------------------------------------------------------------------------

def write_evidence(pid, mod, tier, base, batch, extra, st, known_hits, unknown, wall, workers):
    os.makedirs(EVIDENCE_DIR, exist_ok=True)
    agg = Agg()
    agg.merge(batch.agg)
    agg.merge(extra.agg)
    samples = []
    details = [batch.detail[k] for k in sorted(batch.detail)] + [extra.detail[k] for k in sorted(extra.detail, key=repr)]
    step = max(1, len(details) // 4)
    for s in details[::step]:
        if "scenario" in s and len(samples) < 5:
            samples.append({"index": s["index"], "scenario": _trim(s["scenario"]), "event_log_digest": s["log_digest"],
                            "probes": s["probes"], "faults_fired": s["faults"],
                            "violations": [[v["oracle"], v["klass"], v.get("sig")] for v in s["violations"]]})
    ev = {
        "property_id": pid,
        "tier": tier,
        "seed": int(base),
        "level": mod.LEVEL,
        "coverage": {
            "evaluations": agg.n,
            "distinct_nontrivial": len(agg.nontrivial),
            "rule": mod.RULE,
            "samples": samples,
            "seeded_scenarios": batch.agg.n,
            "systematic_scenarios": extra.agg.n,
            "shaper_executions": agg.runs,
            "scenarios_per_hour": int(agg.n / wall * 3600) if wall > 0 else 0,
            "shaper_executions_per_hour": int(agg.runs / wall * 3600) if wall > 0 else 0,
            "simulated_seconds": round(agg.sim_seconds, 3) if getattr(mod, "HAS_CLOCK", False) else "no clock in this check",
            "faults_fired": dict(sorted(agg.faults.items())),
            "probes": dict(sorted(agg.probes.items())),
            "distinct_event_trace_shapes": len(agg.shapes),
            "distinct_normalised_outputs": len(agg.outs),
            "components": mod.COMPONENTS,
            "determinism_selftest": st,
            "known_finding_hits": dict(known_hits),
            "workers": workers,
            "python_hash_seed_of_harness": os.environ.get("PYTHONHASHSEED"),
            "exhaustive": False,
        },
        "assumptions": mod.ASSUMPTIONS,
        "wall_s": round(wall, 2),
        "violations": len(unknown),
    }
    with open(os.path.join(EVIDENCE_DIR, "%s.json" % pid), "w") as f:
        json.dump(ev, f, indent=1, sort_keys=True, default=str)


def _trim(scenario):
    s = json.loads(json.dumps(scenario, default=str))

    def walk(x):
        if isinstance(x, list):
            if len(x) > 40:
                return [walk(y) for y in x[:40]] + ["... %d more" % (len(x) - 40)]
            return [walk(y) for y in x]
        if isinstance(x, dict):
            return {k: walk(v) for k, v in x.items()}
        if isinstance(x, str) and len(x) > 600:
            return x[:600] + "...(%d chars)" % len(x)
        return x
    return walk(s)
