#!/venv/bin/python
"""Sensitivity self-test: a catalogue of deliberately broken copies of shexer.

For every mutant: copy /repo's working tree to a scratch dir (outside /repo and
/verif), apply one small edit, run the quick check of the property it belongs to
against the copy (DSIM_REPO) and expect exit 1; optionally run the repository's
test suite on the copy to confirm the edit survives it.  Scratch copies are
removed as soon as the mutant has been judged.

usage: tools/sensitivity.py [--suite] [--only ID[,ID]] [--count N]
Writes /verif/sensitivity.json.
"""
import json
import os
import shutil
import subprocess
import sys
import tempfile
import time

VERIF = os.path.dirname(os.path.dirname(os.path.abspath(__file__)))
REPO = "/repo"

M = []


def mut(mid, prop, path, old, new, note=""):
    M.append({"id": mid, "property": prop, "file": path, "old": old, "new": new, "note": note})


SER = "shexer/io/shex/formater/shex_serializer.py"
QRY = "shexer/io/sparql/query.py"
EPG = "shexer/model/graph/endpoint_sgraph.py"
SEL = "shexer/io/graph/yielder/remote/sgraph_from_selectors_triple_yielder.py"
CAP = "shexer/core/instances/annotators/strategy_mode/instance_cap_mode.py"
SHP = "shexer/shaper.py"
TY = "shexer/utils/triple_yielders.py"
AFD = "shexer/core/profiling/strategy/abstract_feature_direction_strategy.py"
ASS = "shexer/core/shexing/strategy/abstract_shexing_strategy.py"

# ---- C18
mut("c18-flush-no-clear", "C18", SER,
    "            self._write_lines_buffer()\n            self._lines_buffer = []\n",
    "            self._write_lines_buffer()\n", "buffer not cleared after a mid-document flush")
mut("c18-flush-reset-misplaced", "C18", SER,
    "        if len(self._lines_buffer) >= _lines_buffer_size():\n            self._write_lines_buffer()\n            self._lines_buffer = []\n",
    "        if len(self._lines_buffer) > _lines_buffer_size():\n            self._write_lines_buffer()\n        if len(self._lines_buffer) >= _lines_buffer_size():\n            self._lines_buffer = []\n",
    "off-by-one: exactly-threshold buffers are dropped without being written")
mut("c18-no-truncate", "C18", SER,
    "        self._reset_target_file()\n        self._serialize_namespaces()\n",
    "        self._serialize_namespaces()\n", "target file not truncated before writing")
mut("c18-string-result-file-mixup", "C18", SER,
    "        if self._string_return:\n            self._string_result += \"\".join(self._lines_buffer)\n        else:",
    "        if self._string_return:\n            self._string_result = \"\".join(self._lines_buffer)\n        else:",
    "string result overwritten on every flush")
mut("c18-ns-shared-again", "C18", SHP,
    "self._namespaces_dict = dict(namespaces_dict) if namespaces_dict is not None else {}",
    "self._namespaces_dict = namespaces_dict if namespaces_dict is not None else {}", "revert of fix 1f10d5b")
mut("c18-threshold-memo", "C18", SHP,
    "        if self._shape_list is None or self._shape_list_threshold != acceptance_threshold:",
    "        if self._shape_list is None:", "revert of fix df94eb0")
mut("c18-tracker-reused", "C18", SHP,
    "        self._instance_tracker = self._build_instance_tracker()\n        self._target_classes_dict",
    "        if self._instance_tracker is None:\n            self._instance_tracker = self._build_instance_tracker()\n        self._target_classes_dict",
    "revert of the tracker half of fix 6a965f6")
mut("c18-disam-global", "C18", "shexer/core/instances/instance_tracker.py",
    "        self._reset_count()\n        try:",
    "        self._reset_count()\n        self._instances_cap = self._instances_cap\n        try:", "no-op control: must NOT be caught")

# ---- C15
mut("c15-cache-flag-inverted", "C15", "shexer/utils/factories/remote_graph_factory.py",
    "store_locally=store_locally)", "store_locally=not store_locally)", "disable_endpoint_cache inverted")
mut("c15-cache-marks-before-store", "C15", EPG,
    "        if target_node not in self._objects_tracked:\n            for a_triple in self._yield_remote_s_p_triples_of_an_o(target_node):\n                self._store_triple_locally(a_triple)\n            self._objects_tracked.add(target_node)",
    "        if target_node not in self._objects_tracked and target_node not in self._subjects_tracked:\n            for a_triple in self._yield_remote_s_p_triples_of_an_o(target_node):\n                self._store_triple_locally(a_triple)\n            self._objects_tracked.add(target_node)",
    "cache treats 'fetched as subject' as 'fetched as object'")
mut("c15-retry-narrow-except", "C15", QRY,
    "        except (HTTPError, EndPointInternalError) as e:", "        except HTTPError as e:", "internal errors no longer retried")
mut("c15-retry-swallow-exhaustion", "C15", QRY,
    "    last_error.msg = \"Max number of attempt reached",
    "    return {\"results\": {\"bindings\": []}}\n    last_error.msg = \"Max number of attempt reached", "exhaustion becomes an empty answer")
mut("c15-retry-no-decrement", "C15", QRY,
    "            max_retries -= 1\n", "            pass\n", "retry loop never gives up")
mut("c15-retry-gives-up-early", "C15", QRY,
    "    while max_retries > 0:", "    while max_retries > 3:", "gives up after 2 (po) attempts")
mut("c15-inverse-dedupe-removed", "C15", SEL,
    "            if already_yielded is not None and str_triple in already_yielded:\n                continue\n", "",
    "revert of fix 8842443")
mut("c15-limit-dropped", "C15", "shexer/utils/translators/list_of_classes_to_shape_map.py",
    "limit=\"\" if limit_remote_instances < 0 else \"LIMIT \" + str(limit_remote_instances)",
    "limit=\"\" if limit_remote_instances <= 1 else \"LIMIT \" + str(limit_remote_instances)", "LIMIT 1 dropped")
mut("c15-sp-wrong-direction", "C15", EPG,
    "            yield a_tuple_sp[0], a_tuple_sp[1], \"<\" + target_node + \">\"",
    "            yield \"<\" + target_node + \">\", a_tuple_sp[1], a_tuple_sp[0]", "inverse triples delivered reversed")

# ---- C16
mut("c16-cap-off-by-one", "C16", CAP,
    "        if self._class_counts[a_triple[_O].iri] < self._instance_limit:",
    "        if self._class_counts[a_triple[_O].iri] <= self._instance_limit:", "< -> <=")
mut("c16-stop-too-early", "C16", CAP,
    "        if self._n_classes_completed == self._n_target_classes:",
    "        if self._n_classes_completed >= 1:", "stops when the first class is full")
mut("c16-ignore-deeper", "C16", TY,
    "            if \"/\" not in str_prop[len(a_namespace):] and \"#\" not in str_prop[len(a_namespace):]:\n                return True",
    "            return True", "deeper namespace levels ignored too")
mut("c16-ignore-filters-instances", "C16", SHP,
    "                                    instances_cap=self._instances_cap)",
    "                                    instances_cap=self._instances_cap,\n                                    namespaces_to_ignore=self._namespaces_to_ignore)",
    "ignore filter applied to the instance pass as well")

# ---- C09
mut("c09-first-wins", "C09", AFD,
    "        self._i_dict[str_subj][POS_FEATURES_DIRECT][str_prop][type_obj] += 1\n",
    "        if self._i_dict[str_subj][POS_FEATURES_DIRECT][str_prop][type_obj] == 0 or len(self._i_dict[str_subj][POS_FEATURES_DIRECT][str_prop]) == 1:\n            self._i_dict[str_subj][POS_FEATURES_DIRECT][str_prop][type_obj] += 1\n",
    "second kind seen for a (subject, property) is counted only once")
# (removing the frequency sort of alternative shape references in MergeableConstraints.sort is an *equivalent*
#  mutant: ClassShexer._sort_shapes has already ordered the statements by probability - not listed)
mut("c09-class-order-first-wins", "C09", "shexer/core/instances/annotators/strategy_mode/base_strategy_mode.py",
    "        self._instances_dict[a_triple[_S].iri].append(a_triple[_O].iri)",
    "        if len(self._instances_dict[a_triple[_S].iri]) < 2:\n            self._instances_dict[a_triple[_S].iri].append(a_triple[_O].iri)",
    "an instance keeps only the first two classes it is seen with")

# ---- C08
mut("c08-skip-last-zip-member", "C08", "shexer/utils/compression.py",
    "    return zip_base_archive.namelist()", "    return zip_base_archive.namelist()[:-1] or zip_base_archive.namelist()", "last zip member skipped")
mut("c08-multifile-skip", "C08", "shexer/io/graph/yielder/multifile_base_triples_yielder.py",
    "        for a_source_file in self._list_of_files:", "        for a_source_file in self._list_of_files[:3]:", "4th file dropped")
# (dropping the language tag in RdflibTripleYielder._turn_into_model_literal is an *equivalent* mutant: sheXer types
#  language-tagged literals as xsd:string on every channel, because there_is_arroba_after_last_quotes looks for '%')
mut("c08-rdflib-datatype-lost", "C08", "shexer/io/graph/yielder/rdflib_triple_yielder.py",
    "                             if rdflib_literal.datatype is not None\n",
    "                             if rdflib_literal.datatype is not None and 'date' not in str(rdflib_literal.datatype)\n",
    "xsd:date literals lose their datatype on rdflib-parsed channels")
mut("c08-gz-first-line", "C08", "shexer/io/line_reader/gz_line_reader.py",
    "            for a_line in in_stream:\n                yield a_line.decode(\"utf-8\")",
    "            next(in_stream, None)\n            for a_line in in_stream:\n                yield a_line.decode(\"utf-8\")",
    "gz reader drops the first line of every file")

# ---- C19
mut("c19-set-order", "C19", SEL,
    "        result = {}  # A dict (insertion-ordered) instead of a set: the order of the nodes must not depend on hashing\n        for an_item in self._shape_map.yield_items():\n            for a_node in an_item.node_selector.get_target_nodes():\n                result[a_node] = None\n        return list(result)",
    "        result = set()\n        for an_item in self._shape_map.yield_items():\n            for a_node in an_item.node_selector.get_target_nodes():\n                result.add(a_node)\n        return list(result)",
    "revert of fix 9fab8ff")
mut("c19-instances-through-set", "C19", "shexer/core/profiling/class_profiler.py",
    "        for an_instance in self._instances_dict:\n            self._strategy.annotate_instance_features(an_instance)",
    "        for an_instance in set(self._instances_dict):\n            self._strategy.annotate_instance_features(an_instance)",
    "instances are profiled in set order on every channel")


def run(cmd, env=None, timeout=1800):
    p = subprocess.run(cmd, env=env, capture_output=True, text=True, timeout=timeout)
    return p.returncode, p.stdout, p.stderr


def judge(m, suite=False, count=None):
    work = tempfile.mkdtemp(prefix="dsim-mut-")
    dst = os.path.join(work, "repo")
    res = {"id": m["id"], "property": m["property"], "note": m["note"]}
    try:
        shutil.copytree(REPO, dst, ignore=shutil.ignore_patterns(".git", "__pycache__", "*.pyc", ".pytest_cache"))
        path = os.path.join(dst, m["file"])
        src = open(path).read()
        if src.count(m["old"]) != 1:
            res["error"] = "pattern found %d times" % src.count(m["old"])
            return res
        open(path, "w").write(src.replace(m["old"], m["new"]))
        env = dict(os.environ)
        env["DSIM_REPO"] = dst
        env.pop("PYTHONHASHSEED", None)
        env.pop("DSIM_NO_REEXEC", None)
        cmd = [os.path.join(VERIF, "bin", "check"), m["property"], "quick", "--no-selftest"]
        if count:
            cmd += ["--count", str(count)]
        t0 = time.time()
        rc, out, err = run(cmd, env)
        res["check_exit"] = rc
        res["check_s"] = round(time.time() - t0, 1)
        res["violation_lines"] = [l for l in out.splitlines() if l.startswith("violation:")][:3]
        if rc not in (0, 1):
            res["tail"] = (out + err)[-600:]
        if suite:
            e2 = dict(os.environ)
            e2["PYTHONPATH"] = dst
            rc2, o2, _ = run(["/venv/bin/python", "-m", "pytest", "-q", "-p", "no:cacheprovider", "--timeout=900", "-x", "-q",
                              "--deselect", "test/test_depth_for_building_subgraph.py", "test"], e2 | {"PWD": dst}, timeout=1800) \
                if False else run(["/bin/sh", "-c", "cd %s && /venv/bin/python -m pytest -q -p no:cacheprovider --timeout=900 2>&1 | tail -1" % dst], e2)
            res["suite_tail"] = o2.strip().splitlines()[-1] if o2.strip() else ""
            res["suite_passes"] = "182 passed" in res["suite_tail"]
    finally:
        shutil.rmtree(work, ignore_errors=True)
    return res


def main():
    args = sys.argv[1:]
    suite = "--suite" in args
    only = None
    count = None
    for i, a in enumerate(args):
        if a == "--only":
            only = set(args[i + 1].split(","))
        if a == "--count":
            count = int(args[i + 1])
    results = []
    for m in M:
        if only and m["id"] not in only and m["property"] not in only:
            continue
        r = judge(m, suite=suite, count=count)
        results.append(r)
        print(json.dumps(r)[:400], flush=True)
    caught = [r for r in results if r.get("check_exit") == 1]
    print("caught %d / %d" % (len(caught), len(results)))
    out = os.path.join(VERIF, "sensitivity.json")
    prev = {}
    if os.path.exists(out) and only:
        prev = {r["id"]: r for r in json.load(open(out))}
    for r in results:
        prev[r["id"]] = r
    json.dump(list(prev.values()) if only else results, open(out, "w"), indent=1)


if __name__ == "__main__":
    main()
